#!/usr/bin/env python3
"""Prepares one seeded-change assignment for an independent sub-agent:
   tools/seedprompt.py <round-tag> <property id>...
creates a scratch worktree /tmp/<tag>-<id> of /repo, an output directory
/tmp/<tag>-<id>-out and the assignment text /tmp/<tag>-<id>.prompt. The agent gets
the property's record and the one-line descriptions of the changes already
delivered for it (so that it produces another kind), nothing from /verif."""
import json, os, subprocess, sys, glob

tag, ids = sys.argv[1], sys.argv[2:]
props = {json.loads(l)["id"]: json.loads(l) for l in open("/verif/properties.jsonl")}

for pid in ids:
    wt, out = f"/tmp/{tag}-{pid}", f"/tmp/{tag}-{pid}-out"
    if not os.path.exists(wt):
        subprocess.check_call(["git", "-C", "/repo", "worktree", "add", "--detach", "-q", wt])
    os.makedirs(out, exist_ok=True)
    earlier = []
    for m in sorted(glob.glob(f"/verif/seeded/{pid}*/meta.json")):
        earlier.append("- " + json.load(open(m))["change"])
    p = props[pid]
    text = f"""You are helping to evaluate a verification harness for the Go library kelindar/column
(an in-memory columnar store). Your job is to write ONE realistic source change to the
library that BREAKS the semantic property below while the library still compiles and its
existing test suite still passes, plus a small demonstration test that exposes the breakage.

## The property ({pid})
{json.dumps(p, indent=1)}

## Where to work
* Your private scratch git worktree of the library: {wt}  (work ONLY there).
* Put your deliverables into: {out}
* Do NOT read, list or touch /verif or /repo. Do not look for other checkers or harnesses.
* Every shell command needs:  export GOFLAGS=-mod=mod GOPROXY=off GOSUMDB=off GOTOOLCHAIN=local
  (the sandbox has no network).
* Never use `git stash` (stashes are shared between worktrees and other people work in
  sibling worktrees right now), never `pkill`/`killall` by name, never commit, never touch
  other directories under /tmp.
* 18 source files of the library have CRLF line endings. Preserve the line endings of every
  line you do not change (edit in binary mode, or check `git diff --stat` shows only the lines
  you meant to change).

## What the change must be
* A change to non-test library source in the worktree (one to about fifteen lines is typical)
  of the kind a maintainer could plausibly make in good faith: a refactoring, a micro-
  optimisation, a clean-up, a "simplification", moving a statement, narrowing or widening a
  lock, caching something, re-using a buffer, an off-by-one in a bound, a wrong unit. Not
  sabotage that any reader would spot at once, no new exported API, no build tags.
* `go build ./... && go test -vet=off -count=1 ./...` must still PASS with the change in
  place and the existing test files unedited (run it; if an existing test catches your
  change, pick another change).
* The property above must be violated by the changed library for some input / history /
  schedule / fault point that is within the property's quantifier. Prefer a violation that
  needs a specific situation (a particular interleaving of two or three goroutines, a
  particular fault or truncation point, a particular data layout such as a second 16384-row
  block, a re-used offset, a pooled object that was used before) over one that breaks every
  call.
* It must be of ANOTHER KIND than the changes already delivered for this property - another
  function, another mechanism, another manifestation:
{chr(10).join(earlier) if earlier else '- (none yet)'}
* Do not simply revert one of the commits in `git log` whose message starts with "fix:".

## Demonstration
* Add a NEW test file `seeded_demo_test.go` (package `column` or `commit`, next to the code;
  more than one file is fine) whose tests FAIL with your change and PASS without it. Test
  names must start with `TestSeeded`.
* It has to be deterministic: if it needs a particular interleaving, force it (channels,
  hooks reachable from a test in the same package, callbacks the API already offers) rather
  than hoping for it; put a timeout on anything that can hang. If the property is about data
  races, a demonstration that fails only under `go test -race` is acceptable - say so.
* Verify all three facts yourself: suite passes with the change (demo file moved away),
  demo fails with the change, demo passes with the change reverted (`git apply -R`).

## Deliverables in {out}
* `patch.diff` - `git diff --binary` of the library change ONLY (no test files), made so that
  `git apply --check patch.diff` succeeds on the unchanged tree (mind CRLF).
* the demonstration test file(s).
* `NOTES.md` - the property, the change and why it looks innocent, why it breaks the
  property, exactly what is needed for it to manifest, the commands you ran and their
  outcomes.
Leave the worktree with the change applied and the demo file present. Finish with a short
report (what the change is, what it needs to manifest, the three verdicts).
"""
    open(f"/tmp/{tag}-{pid}.prompt", "w").write(text)
    print(pid, wt, len(earlier), "earlier")
