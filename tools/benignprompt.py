#!/usr/bin/env python3
"""Prepares one BENIGN-change assignment for an independent sub-agent:
   tools/benignprompt.py <tag> <area>...
creates a scratch worktree /tmp/<tag>-<n> of /repo, an output directory and the
assignment text /tmp/<tag>-<n>.prompt. The agent is asked for a realistic,
behaviour-preserving change (refactoring / optimisation / clean-up) in the named
area; the checks are then run against it and must stay silent (false-alarm probe)."""
import json, os, subprocess, sys

tag, areas = sys.argv[1], sys.argv[2:]
props = [json.loads(l) for l in open("/verif/properties.jsonl")]
plist = "\n".join(f"* {p['id']} {p['title']}: {p['statement']}" for p in props)

BOLD = ""
if os.environ.get("BENIGN_BOLD"):
    BOLD = ("* This assignment asks for a change of POLICY or REPRESENTATION inside the library, not only of code shape: pick\n"
            "  something the properties below do NOT pin down (which free offset an insert gets, how internal ids are generated,\n"
            "  how memory grows, how work is batched, how many locks or shards there are, what is pooled, the byte layout of\n"
            "  internal buffers that never leave the process, the order in which independent columns are processed) and change it\n"
            "  to another reasonable choice, keeping every property intact.\n")
for n, area in enumerate(areas, 1):
    wt, out = f"/tmp/{tag}-{n}", f"/tmp/{tag}-{n}-out"
    if not os.path.exists(wt):
        subprocess.check_call(["git", "-C", "/repo", "worktree", "add", "--detach", "-q", wt])
    os.makedirs(out, exist_ok=True)
    text = f"""You are helping to evaluate a verification harness for the Go library kelindar/column
(an in-memory columnar store). Your job is to write ONE realistic, BEHAVIOUR-PRESERVING change
to the library - the kind of refactoring, performance work or clean-up a maintainer merges every
week - so that we can check that the harness does NOT raise a false alarm on it.

## Area to work in
{area}

## Where to work
* Your private scratch git worktree of the library: {wt}  (work ONLY there).
* Put your deliverables into: {out}
* Do NOT read, list or touch /verif or /repo. Do not look for other checkers or harnesses.
* Every shell command needs:  export GOFLAGS=-mod=mod GOPROXY=off GOSUMDB=off GOTOOLCHAIN=local
  (the sandbox has no network).
* Never use `git stash`, never `pkill`/`killall` by name, never commit, never touch other
  directories under /tmp.
* 18 source files of the library have CRLF line endings. Preserve the line endings of every
  line you do not change (edit in binary mode, or check `git diff --stat`).

## What the change must be
{BOLD}* 30 to 150 changed lines of non-test library source, in the area above: for example renaming
  and splitting internal functions, extracting helpers, inlining, replacing a data structure by an
  equivalent one, re-ordering independent statements, changing a buffer size or a growth policy,
  caching something that really is immutable, narrowing a lock ONLY where that is provably safe,
  replacing a hand-written loop by a library call, changing how an internal id or counter is
  produced without changing its guarantees, tidying error paths without changing what is returned.
* It must be REAL work, not a no-op: names, structure, allocation pattern, internal call graph or
  internal timing should visibly change. Adding a new internal goroutine or a new third-party
  dependency is not allowed; no new exported API; no build tags.
* It must preserve every one of these semantic properties of the library (all of them hold, up to
  known defects, on the tree you start from - your change must not make any of them worse, nor fix
  any defect you happen to notice):
{plist}
* `go build ./... && go test -vet=off -count=1 ./...` and `go test -vet=off -race -count=1 ./...`
  must pass with the change in place and the existing test files unedited.

## Deliverables in {out}
* `patch.diff` - `git diff --binary` of the library change, made so that
  `git apply --check patch.diff` succeeds on the unchanged tree (mind CRLF).
* `NOTES.md` - what you changed, why a maintainer would merge it, and a short argument, per
  touched function, for why observable behaviour (results, errors, ordering guarantees, locking
  protocol, absence of data races) is unchanged; the commands you ran and their outcomes.
Leave the worktree with the change applied. Finish with a short report.
"""
    open(f"/tmp/{tag}-{n}.prompt", "w").write(text)
    print(n, wt, area[:60])
