#!/usr/bin/env python3
"""redit.py <file> <old-file> <new-file>: exact, EOL-preserving replacement in a repo file.
old/new snippets are given with LF; they are converted to the target file's convention."""
import sys
p, oldf, newf = sys.argv[1:4]
s = open(p, 'rb').read()
crlf = b'\r\n' in s
old = open(oldf, 'rb').read(); new = open(newf, 'rb').read()
if crlf:
    old = old.replace(b'\r\n', b'\n').replace(b'\n', b'\r\n'); new = new.replace(b'\r\n', b'\n').replace(b'\n', b'\r\n')
n = s.count(old)
if n != 1:
    sys.exit("redit: old snippet occurs %d times in %s" % (n, p))
open(p, 'wb').write(s.replace(old, new))
print("redit: ok (%s)" % ("CRLF" if crlf else "LF"))
