#!/bin/bash
# seedconfirm.sh <dir>: prints three verdicts for a seeded change:
#   demo_on_unchanged=pass|fail  suite_with_change=pass|fail  demo_with_change=pass|fail
set -u
export GOFLAGS=-mod=mod GOPROXY=off GOSUMDB=off GOTOOLCHAIN=local
D="$(cd "$1" && pwd)"
WT=/tmp/seedconfirm-$$
git -C /repo worktree add -q --detach "$WT" HEAD || exit 2
trap 'git -C /repo worktree remove --force "$WT" 2>/dev/null' EXIT
demos=$(ls "$D"/*_test.go 2>/dev/null)
pkgdir() { if grep -q '^package commit' "$1"; then echo "$WT/commit"; else echo "$WT"; fi; }
tests() { grep -ho '^func Test[A-Za-z0-9_]*' $demos | sed 's/func //' | paste -sd'|'; }
put() { for f in $demos; do cp "$f" "$(pkgdir "$f")/"; done; }
del() { for f in $demos; do rm -f "$(pkgdir "$f")/$(basename "$f")"; done; }
v() { if [ "$1" = 0 ]; then echo pass; else echo fail; fi; }
put; (cd "$WT" && go test ${SEED_TEST_FLAGS:-} -vet=off -count=1 -run "^($(tests))\$" ./... >/dev/null 2>&1); a=$?; del
git -C "$WT" apply "$D/patch.diff" || { echo "patch_applies=no"; exit 2; }
(cd "$WT" && go build ./... >/dev/null 2>&1 && go test -vet=off -count=1 ./... >/dev/null 2>&1); b=$?
put; (cd "$WT" && go test ${SEED_TEST_FLAGS:-} -vet=off -count=1 -run "^($(tests))\$" ./... >/dev/null 2>&1); c=$?; del
echo "demo_on_unchanged=$(v $a) suite_with_change=$(v $b) demo_with_change=$(v $c) tests=$(tests)"
