#!/bin/bash
# benigntest.sh <dir-with-patch.diff> [check...]: false-alarm probe. Applies a BEHAVIOUR-PRESERVING
# change to a scratch worktree of /repo (never to /repo itself), runs the repository's suite on it,
# then every quick check (or the named ones) against it: each must exit 0 without VIOLATION.
# Development aid; evidence of these runs goes to a scratch directory.
set -u
export GOFLAGS=-mod=mod GOPROXY=off GOSUMDB=off GOTOOLCHAIN=local
D="$(cd "$1" && pwd)"; shift
V="$(cd "$(dirname "$0")" && pwd)"
WT=/tmp/benign-$$; OUT=/tmp/benign-out-$$; mkdir -p "$OUT"
git -C /repo worktree add -q --detach "$WT" HEAD || exit 2
trap 'git -C /repo worktree remove --force "$WT" 2>/dev/null; rm -rf "$OUT"; (cd "$V" && ./run.sh build >/dev/null 2>&1)' EXIT
git -C "$WT" apply "$D/patch.diff" || { echo "PATCH DOES NOT APPLY"; exit 2; }
git -C "$WT" diff --stat | tail -1
(cd "$WT" && go build ./... && go test -vet=off -count=1 ./... 2>&1 | grep -v 'no test files' | tail -2)
ids="$*"; [ -z "$ids" ] && ids=$(seq -f "C%02g" 1 19)
bad=0
for id in $ids; do
  out=$(cd "$V" && VERIF_REPO="$WT" VERIF_OUT="$OUT" ./run.sh "$id" quick 2>&1); rc=$?
  nv=$(echo "$out" | grep -c '^VIOLATION')
  [ "$rc" != 0 ] && bad=$((bad+1))
  echo "$id rc=$rc violations=$nv errors=$(echo "$out" | grep -c HARNESS-ERROR) | $(echo "$out" | tail -1 | cut -c1-140)"
  echo "$out" | grep -A2 '^VIOLATION' | head -6 | cut -c1-300
  echo "$out" | grep 'HARNESS-ERROR' | head -2 | cut -c1-300
done
echo "benigntest: $bad checks did not exit 0"
