package props

import (
	"bytes"
	"fmt"

	"colverif/eng"
	"colverif/model"
)

// ---------------------------------------------------------------------------
// C07, second family of units: one column of EVERY kind, values from the per-kind
// alphabets (ordinary, zero/empty, extremes: negative numbers of every width, NaN,
// -0...), two blocks; letters store the i-th value of every
// alphabet into a row, insert such a row, delete, and "snapshot -> restore into a
// fresh collection -> continue there". What a snapshot writer gets wrong for one
// width or sign shows here; the general units use small positive numbers only.
// ---------------------------------------------------------------------------

type c07KindsSpec struct {
	depth int
	caps  []int
}

func (s c07KindsSpec) name() string { return fmt.Sprintf("seq/all-kinds/two-blocks/d%d", s.depth) }

var c07KindNames = []string{"int", "int16", "int32", "int64", "uint", "uint16", "uint32", "uint64", "float32", "float64", "bool", "string", "enum", "record"}

func (s c07KindsSpec) config(capacity int) model.Config {
	cfg := model.Config{Capacity: capacity}
	for _, kd := range c07KindNames {
		cfg.Cols = append(cfg.Cols, model.ColDef{Name: "c_" + kd, Kind: kd})
	}
	return cfg
}

func (s c07KindsSpec) row(i int) []model.Write {
	var ws []model.Write
	for _, kd := range c07KindNames {
		vals := model.Kinds[kd].Values
		v := vals[i%len(vals)]
		if (kd == "string" || kd == "record") && len(v.S) > 1000 {
			v.S = v.S[:1000] // (the 64K values are C01's subject; keep the snapshots small)
		}
		if kd == "enum" {
			// (without the colliding pair: that recorded finding is C01's)
			v = model.Val{S: []string{"x", "", "y", "a much longer enumeration value", "z", "y"}[i%6]}
		}
		ws = append(ws, model.Write{Col: "c_" + kd, V: v})
	}
	return ws
}

type c07KindsState struct {
	worldState
	spec     c07KindsSpec
	restores int
}

func (s c07KindsSpec) newState() eng.SeqState {
	st := &c07KindsState{spec: s}
	st.w = model.NewWorld(s.config(0))
	st.w.SeedReplay(map[uint32][]model.Write{3: s.row(0), 16384 + 1: s.row(2)})
	st.ops = func(*model.World) []opx { return s.ops(st) }
	st.check = func(*model.World) []eng.Violation { return st.w.Check(model.Obs{Values: true}) }
	return st
}

func (st *c07KindsState) Key() (string, bool) {
	k, nt := st.worldState.Key()
	return fmt.Sprintf("%s r%d", k, st.restores), nt
}

func (s c07KindsSpec) ops(st *c07KindsState) (out []opx) {
	w := st.w
	rows := firstRows(w, 1)
	if hi, ok := lastRow(w); ok && (len(rows) == 0 || hi != rows[0]) {
		rows = append(rows, hi)
	}
	for i := 0; i < 6; i++ {
		for _, r := range rows {
			out = append(out, txnOp(w, []model.Act{{Op: "put", Off: r, W: s.row(i)}}, false))
		}
	}
	out = append(out, txnOp(w, []model.Act{{Op: "insert", W: s.row(3)}}, false), txnOp(w, []model.Act{{Op: "insert", W: s.row(4)}}, false))
	for _, r := range rows {
		out = append(out, txnOp(w, []model.Act{{Op: "del", Off: r}}, false))
	}
	for _, cp := range s.caps {
		cp := cp
		out = append(out, opx{label: fmt.Sprintf("snapshot->restore(capacity %d)->continue on the restored collection", cp), run: func() []eng.Violation {
			snap, err := w.Snapshot()
			if err != nil {
				return []eng.Violation{{Assert: "snapshot/error", Witness: "Snapshot failed", Detail: err.Error()}}
			}
			t := w.Twin(s.config(cp), true)
			var vs []eng.Violation
			func() {
				defer func() {
					if r := recover(); r != nil {
						t.Poisoned = true
						vs = append(vs, eng.Violation{Assert: "no-panic@restore", Witness: "panic in Restore", Detail: fmt.Sprint(r)})
					}
				}()
				if err := t.C.Restore(bytes.NewReader(snap)); err != nil {
					vs = append(vs, eng.Violation{Assert: "restore/error", Witness: "Restore failed", Detail: err.Error()})
				}
			}()
			st.extra = append(st.extra, w)
			st.w = t
			st.restores++
			return vs
		}})
	}
	return out
}

func c07KindsUnits(tier string) []eng.Unit {
	s := c07KindsSpec{depth: 3, caps: []int{64}}
	if tier != "quick" {
		s = c07KindsSpec{depth: 4, caps: []int{1, 20000}}
	}
	return []eng.Unit{&eng.SeqSpec{UnitName: s.name(), Prop: "C07", Depth: s.depth, Split: 1, New: s.newState}}
}
