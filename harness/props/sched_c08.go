package props

import (
	"bytes"
	"fmt"
	"sort"
	"strings"
	"time"

	"colverif/eng"
	"colverif/model"
	"colverif/vsched"

	"github.com/kelindar/column"
)

// ---------------------------------------------------------------------------
// C08 — a snapshot taken under concurrent commits restores to a consistent cut.
// SCHED: thread S takes a snapshot while 2-3 writers commit; afterwards the
// snapshot is restored into a fresh collection. Per block, the restored rows must
// equal the primary's block after some prefix of the commits applied to that block
// (apply order = order in which commits reached the recording logger, under the
// latch), bounded below by the commits acknowledged before Snapshot was called and
// above by those that started after it returned.
// ---------------------------------------------------------------------------

type c08Scenario struct {
	name    string
	keyed   bool
	writers [][]model.Act
	fails   []bool
	full    bool // only block 0 exists and it is full (R0 + 16383 filler rows): an insert opens block 1
}

func c08Scenarios() []c08Scenario {
	V := func(n uint64) model.Val { return model.Val{N: n} }
	put := func(off uint32, ws ...model.Write) model.Act { return model.Act{Op: "put", Off: off, W: ws} }
	a := func(v uint64) model.Write { return model.Write{Col: "a", V: V(v)} }
	am := func(v uint64) model.Write { return model.Write{Col: "a", V: V(v), Merge: true} }
	b := func(v uint64) model.Write { return model.Write{Col: "b", V: V(v)} }
	s := func(x string, merge bool) model.Write { return model.Write{Col: "s", V: model.Val{S: x}, Merge: merge} }
	return []c08Scenario{
		// at least one writer changes TWO things in the block, one of which another
		// writer also changes: otherwise every mis-ordered replay still lands on some
		// prefix state and the scenario is blind
		{name: "put-a+b||put-a", writers: [][]model.Act{{put(R0, a(7), b(1))}, {put(R0, a(5))}}},
		{name: "merge-both-blocks||merge+put-b", writers: [][]model.Act{{put(R0, am(1)), put(R1, am(1), b(3))}, {put(R0, am(2), b(1)), put(R1, a(9))}}},
		{name: "delete+merge||put", writers: [][]model.Act{{{Op: "del", Off: R1}, put(R0, am(1), b(1))}, {put(R0, a(9))}}},
		{name: "insert||merge", writers: [][]model.Act{{{Op: "insert", W: []model.Write{a(7), s("n", false)}}}, {put(R0, am(1), s("x", true))}}},
		{name: "two-inserts||delete", writers: [][]model.Act{{{Op: "insert", W: []model.Write{a(7)}}, {Op: "insert", W: []model.Write{a(8)}}}, {{Op: "del", Off: R0}}}},
		{name: "three-writers", writers: [][]model.Act{{put(R0, a(7), b(1))}, {put(R0, a(5))}, {put(R0, b(2)), put(R1, am(1))}}},
		{name: "four-writers", writers: [][]model.Act{{put(R0, a(7), b(1))}, {put(R0, am(5))}, {put(R0, b(2)), put(R1, am(1))}, {put(R1, a(3), b(4)), {Op: "insert", W: []model.Write{a(1)}}}}},
		{name: "commit||rollback", writers: [][]model.Act{{put(R0, a(7), b(1))}, {put(R0, a(99)), {Op: "insert", W: []model.Write{a(1)}}}}, fails: []bool{false, true}},
		// the insert reserves the first offset of a block whose columns do not exist yet
		{name: "insert-opening-a-new-block||put", full: true, writers: [][]model.Act{{{Op: "insert", W: []model.Write{a(7), s("n", false)}}}, {put(R0, a(9), b(1))}}},
		{name: "keyed/upsert-new||delete||update", keyed: true, writers: [][]model.Act{
			{{Op: "upsertkey", Key: "k", W: []model.Write{a(4)}}}, {{Op: "deletekey", Key: "s1"}}, {{Op: "querykey", Key: "s0", W: []model.Write{am(1), b(1)}}}}},
	}
}

type snapThread struct {
	buf        bytes.Buffer
	err        error
	start, end int
	done       bool
}

func renderBlock(cols []model.ColDef, rows map[uint32]map[string]model.Val, blk uint32, kinds func(string) *model.KindDesc) string {
	var offs []uint32
	for o := range rows {
		if o>>14 == blk {
			offs = append(offs, o)
		}
	}
	sort.Slice(offs, func(i, j int) bool { return offs[i] < offs[j] })
	var sb strings.Builder
	for _, o := range offs {
		fmt.Fprintf(&sb, "%d{", o)
		for _, c := range cols {
			if v, ok := rows[o][c.Name]; ok {
				fmt.Fprintf(&sb, "%s=%s ", c.Name, kinds(c.Name).Show(v))
			}
		}
		sb.WriteString("} ")
	}
	return sb.String()
}

func modelRows(m *model.Model) map[uint32]map[string]model.Val {
	out := map[uint32]map[string]model.Val{}
	for o, r := range m.Live {
		out[o] = r.V
	}
	return out
}

func implRows(w *model.World) map[uint32]map[string]model.Val {
	out := map[uint32]map[string]model.Val{}
	w.C.Query(func(txn *column.Txn) error {
		return txn.Range(func(idx uint32) {
			row := map[string]model.Val{}
			for _, c := range w.M.Cols {
				if v, ok := w.M.Col(c.Name).ReadTxn(txn, c.Name); ok {
					row[c.Name] = v
				}
			}
			out[idx] = row
		})
	})
	return out
}

func (sc c08Scenario) instance() *eng.SchedInstance { return sc.build(false) }

// truncated is the C13 variant: the same scenario, but EVERY clean cut of the
// resulting snapshot stream (each s2 frame boundary: what a crash while the state or
// the log tail was being written leaves behind) is restored; each must fail or give,
// per block, a prefix state of the commits applied to that block.
func (sc c08Scenario) truncated() *eng.SchedInstance { return sc.build(true) }

func (sc c08Scenario) build(cuts bool) *eng.SchedInstance {
	cols := []model.ColDef{{Name: "a", Kind: "int"}, {Name: "b", Kind: "int"}, {Name: "s", Kind: "string"}}
	var sw *sworld
	if sc.keyed {
		cols = append([]model.ColDef{{Name: "key", Kind: "key"}}, cols...)
		sw = newSWorld(model.Config{Cols: cols}, nil)
		sw.w.SeedReplay(map[uint32][]model.Write{
			R0: {{Col: "key", V: model.Val{S: "s0"}}, {Col: "a", V: model.Val{N: 2}}, {Col: "b", V: model.Val{N: 0}}},
			R1: {{Col: "key", V: model.Val{S: "s1"}}, {Col: "a", V: model.Val{N: 2}}, {Col: "b", V: model.Val{N: 0}}}})
		sw.w.Commits, sw.w.Emitters = nil, nil
	} else if sc.full {
		sw = newSWorld(model.Config{Cols: cols}, nil)
		sw.w.SeedReplay(map[uint32][]model.Write{R0: {{Col: "a", V: model.Val{N: 2}}, {Col: "b", V: model.Val{N: 0}}, {Col: "s", V: model.Val{S: "s"}}}})
		// filler rows (not in the model; the oracle counts them) occupy the rest of block 0
		sw.w.C.Query(func(txn *column.Txn) error {
			for i := 0; i < 16383; i++ {
				txn.Insert(func(r column.Row) error { r.SetInt("a", 1); return nil })
			}
			return nil
		})
		sw.w.Commits, sw.w.Emitters = nil, nil
	} else {
		sw = newSWorld(model.Config{Cols: cols}, []model.Write{{Col: "a", V: model.Val{N: 2}}, {Col: "b", V: model.Val{N: 0}}, {Col: "s", V: model.Val{S: "s"}}})
		sw.w.Emitters = nil
	}
	w := sw.w
	for i, acts := range sc.writers {
		fail := false
		if i < len(sc.fails) {
			fail = sc.fails[i]
		}
		sw.add(fmt.Sprintf("W%d", i+1), acts, fail)
	}
	snap := &snapThread{}
	bodies := append(sw.bodies(), func() {
		snap.start = vsched.Steps()
		snap.err = w.C.Snapshot(&snap.buf)
		snap.end = vsched.Steps()
		snap.done = true
	})
	names := append(sw.names(), "S")
	nW := len(sw.threads)
	return &eng.SchedInstance{
		Threads: bodies,
		Close:   w.Close,
		Check: func(res *vsched.Result) (string, []eng.Violation) {
			vs := threadPanics(res, names)
			if len(vs) > 0 {
				return "panic", vs
			}
			if snap.err != nil {
				return "snapshot-error", []eng.Violation{{Assert: "snapshot/succeeds", Witness: "concurrent writers make the snapshot call fail", Detail: snap.err.Error()}}
			}
			if cuts {
				return c13Cuts(sw, snap.buf.Bytes(), cols, names, nW)
			}
			t := w.Twin(model.Config{}, true)
			defer t.Close()
			var rerr error
			var rp any
			func() {
				defer func() { rp = recover() }()
				rerr = t.C.Restore(bytes.NewReader(snap.buf.Bytes()))
			}()
			if rp != nil {
				t.Poisoned = true
				return "restore-panic", []eng.Violation{{Assert: "no-panic", Witness: "Restore of a snapshot taken under concurrent commits panicked", Detail: fmt.Sprint(rp)}}
			}
			if rerr != nil {
				return "restore-error", []eng.Violation{{Assert: "restore/succeeds", Witness: "a snapshot taken under concurrent commits does not restore", Detail: rerr.Error()}}
			}
			restored := implRows(t)
			kinds := func(c string) *model.KindDesc { return w.M.Col(c) }
			outcome := ""
			if sc.full {
				filler := 0
				for off, row := range restored {
					if off < 16384 && off != R0 {
						if fmt.Sprint(row) == fmt.Sprint(map[string]model.Val{"a": {N: 1}}) {
							filler++
						}
						delete(restored, off)
					}
				}
				if filler != 16383 {
					vs = append(vs, eng.Violation{Assert: "cut/untouched-rows", Witness: "rows that no transaction touched differ in the restored collection",
						Detail: fmt.Sprintf("%d of the 16383 filler rows of block 0 were restored with their value", filler)})
				}
			}
			for _, blk := range []uint32{0, 1} {
				// apply order of this block = emission order of its commits
				var order []int
				for i, c := range w.Commits {
					if uint32(c.Chunk) == blk && i < len(w.Emitters) {
						order = append(order, w.Emitters[i])
					}
				}
				m := w.M.Clone()
				states := []string{renderBlock(cols, modelRows(m), blk, kinds)}
				rowsets := []map[uint32]map[string]model.Val{modelRows(m.Clone())}
				lo, hi := 0, len(order)
				for j, th := range order {
					if th < 0 || th >= nW {
						return "bad-emitter", []eng.Violation{{Assert: "harness/emitter", Witness: "commit emitted by an unknown thread", Detail: fmt.Sprint(order)}}
					}
					w.ApplyPendingTo(m, &sw.threads[th].p, map[uint32]bool{blk: true})
					states = append(states, renderBlock(cols, modelRows(m), blk, kinds))
					rowsets = append(rowsets, modelRows(m.Clone()))
					if sw.threads[th].done && sw.threads[th].end < snap.start {
						lo = j + 1 // acknowledged before the snapshot call began
					}
					if sw.threads[th].start > snap.end && hi == len(order) {
						hi = j // started after the snapshot call returned
					}
				}
				got := renderBlock(cols, restored, blk, kinds)
				match := -1
				for j, st := range states {
					if st == got {
						match = j
						if j >= lo && j <= hi {
							break
						}
					}
				}
				var ord []string
				for _, th := range order {
					ord = append(ord, names[th])
				}
				outcome += fmt.Sprintf("b%d[%s]@%d ", blk, strings.Join(ord, ">"), match)
				if match < 0 {
					wit := "restored block equals no prefix of the commits applied to it"
					// known pattern: an insert that had reserved its offset but not committed
					// when the block was read shows up as an (empty) live row
					for _, rs := range rowsets {
						extraOnlyReserved := true
						nExtra := 0
						for off, row := range restored {
							if off>>14 != blk {
								continue
							}
							if _, ok := rs[off]; !ok {
								nExtra++
								if len(row) != 0 || !isInsertedBy(sw, off) {
									extraOnlyReserved = false
								}
							}
						}
						same := true
						for off, row := range rs {
							if off>>14 != blk {
								continue
							}
							if fmt.Sprint(restored[off]) != fmt.Sprint(row) {
								same = false
							}
						}
						if same && extraOnlyReserved && nExtra > 0 {
							wit = "restored block holds an empty live row for an insert that had reserved its offset but not committed"
						}
					}
					vs = append(vs, eng.Violation{Assert: "cut/prefix", Witness: wit,
						Detail: fmt.Sprintf("block %d: commits applied in order %v; restored rows {%s}; prefix states: %s", blk, ord, got, strings.Join(states, " | "))})
					continue
				}
				if match < lo {
					vs = append(vs, eng.Violation{Assert: "cut/includes-acknowledged", Witness: "a commit acknowledged before the snapshot call began is missing from the restored block",
						Detail: fmt.Sprintf("block %d: apply order %v, restored = state after %d commits, but %d were acknowledged before Snapshot was called", blk, ord, match, lo)})
				}
				if match > hi {
					vs = append(vs, eng.Violation{Assert: "cut/excludes-later", Witness: "a commit that started after the snapshot call returned is in the restored block",
						Detail: fmt.Sprintf("block %d: apply order %v, restored = state after %d commits, only %d had started when Snapshot returned", blk, ord, match, hi)})
				}
			}
			return outcome, vs
		},
	}
}

func isInsertedBy(sw *sworld, off uint32) bool {
	for _, t := range sw.threads {
		for _, o := range t.res.Inserted {
			if o == off {
				return true
			}
		}
	}
	return false
}

func init() {
	eng.Register(&eng.Check{
		Prop:  "C08",
		Level: "model_checking", NodeStates: true,
		Rule: "SCHED: a snapshot thread beside 2-3 committing transactions (two-column and one-column updates of one row, merges in both blocks, delete, inserts (also one that opens a new block), rollback, keyed upsert/delete), " +
			"every interleaving at every lock/atomic operation of the real commit and snapshot code up to the preemption bound; after each execution the snapshot is restored into a fresh " +
			"collection and, per block, must equal the model after some prefix of the commits applied to that block (apply order = order at the recording logger, under the latch), at least " +
			"those acknowledged before Snapshot was called and none that started after it returned; Snapshot and Restore must return nil and not panic. states = decision nodes; distinct = " +
			"distinct (per-block apply order, matched prefix) outcomes",
		Assumptions: []string{"sequentially consistent interleavings; logical clock = scheduler steps", "each writer is one transaction"},
		Budget:      budget(170*time.Second, 28*time.Minute),
		Bounds: func(tier string) map[string]any {
			if tier == "quick" {
				return map[string]any{"preemption_bound": "2 (snapshot + 2 writers), 1 (snapshot + 3 writers; the 16K-row scenario)", "threads": "snapshot + 2-3 writers"}
			}
			return map[string]any{"preemption_bound": "3 (snapshot + 2 writers), 2 (snapshot + 3 writers; the 16K-row scenario), 1 (snapshot + 4 writers)", "threads": "snapshot + 2-4 writers"}
		},
		Units: func(tier string) []eng.Unit {
			var scs []scenario
			for _, sc := range c08Scenarios() {
				sc := sc
				if len(sc.writers) > 3 && tier == "quick" {
					continue // (snapshot + 4 writers: thorough tier only)
				}
				b := 2
				if len(sc.writers) > 2 || sc.full {
					b = 1 // (full: 16K rows are built, snapshotted and restored in every execution)
				}
				if tier != "quick" && len(sc.writers) <= 3 {
					b++
				}
				scs = append(scs, scenario{sc.name, b, sc.instance})
			}
			return schedUnits("C08", scs)
		},
	})
}

// prefixStates returns, for one block, the rendered model state after each prefix of
// the commits applied to it (apply order = emission order at the recording logger).
func prefixStates(sw *sworld, cols []model.ColDef, blk uint32, nW int) (states []string, order []int) {
	w := sw.w
	kinds := func(c string) *model.KindDesc { return w.M.Col(c) }
	for i, c := range w.Commits {
		if uint32(c.Chunk) == blk && i < len(w.Emitters) && w.Emitters[i] >= 0 && w.Emitters[i] < nW {
			order = append(order, w.Emitters[i])
		}
	}
	m := w.M.Clone()
	states = []string{renderBlock(cols, modelRows(m), blk, kinds)}
	for _, th := range order {
		w.ApplyPendingTo(m, &sw.threads[th].p, map[uint32]bool{blk: true})
		states = append(states, renderBlock(cols, modelRows(m), blk, kinds))
	}
	return states, order
}

func c13Cuts(sw *sworld, data []byte, cols []model.ColDef, names []string, nW int) (string, []eng.Violation) {
	w := sw.w
	kinds := func(c string) *model.KindDesc { return w.M.Col(c) }
	var vs []eng.Violation
	cutsDone, restoredOK := 0, 0
	bounds := s2FrameBoundaries(data)
	for _, n := range bounds {
		if n <= 0 || n > len(data) {
			continue
		}
		cutsDone++
		t := w.Twin(model.Config{}, true)
		var err error
		var pan any
		func() {
			defer func() { pan = recover() }()
			err = t.C.Restore(bytes.NewReader(data[:n]))
		}()
		if pan != nil {
			t.Poisoned = true
			vs = append(vs, eng.Violation{Assert: "no-panic", Witness: "Restore panicked on a truncated stream", Detail: fmt.Sprintf("cut at %d of %d: %v", n, len(data), pan)})
			continue
		}
		if err != nil {
			t.Close()
			continue
		}
		restoredOK++
		restored := implRows(t)
		t.Close()
		for _, blk := range []uint32{0, 1} {
			states, order := prefixStates(sw, cols, blk, nW)
			got := renderBlock(cols, restored, blk, kinds)
			ok := false
			for _, st := range states {
				if st == got {
					ok = true
				}
			}
			if !ok {
				// the recorded reservation finding of C08 shows here too: empty live rows
				wit := "a snapshot stream cut at a frame boundary restores without error to a block state that is no prefix of its commits"
				if onlyExtraEmptyInserted(sw, restored, blk, states, cols, kinds) {
					wit = "restored block holds an empty live row for an insert that had reserved its offset but not committed"
				}
				var ord []string
				for _, th := range order {
					ord = append(ord, names[th])
				}
				vs = append(vs, eng.Violation{Assert: "restore/prefix", Witness: wit,
					Detail: fmt.Sprintf("cut at byte %d of %d (frame boundary), block %d: commits applied in order %v; restored rows {%s}; prefix states: %s", n, len(data), blk, ord, got, strings.Join(states, " | "))})
			}
		}
	}
	return fmt.Sprintf("cuts=%d restored-without-error=%d", cutsDone, restoredOK), vs
}

// onlyExtraEmptyInserted: the restored block equals some prefix state once the empty
// rows sitting on offsets handed to the scenario's inserts are ignored.
func onlyExtraEmptyInserted(sw *sworld, restored map[uint32]map[string]model.Val, blk uint32, states []string, cols []model.ColDef, kinds func(string) *model.KindDesc) bool {
	stripped := map[uint32]map[string]model.Val{}
	n := 0
	for off, row := range restored {
		if off>>14 == blk && len(row) == 0 && isInsertedBy(sw, off) {
			n++
			continue
		}
		stripped[off] = row
	}
	if n == 0 {
		return false
	}
	got := renderBlock(cols, stripped, blk, kinds)
	for _, st := range states {
		if st == got {
			return true
		}
	}
	return false
}
