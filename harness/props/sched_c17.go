package props

import (
	"fmt"
	"time"

	"colverif/eng"
	"colverif/model"
	"colverif/vsched"

	"github.com/kelindar/column"
)

// ---------------------------------------------------------------------------
// C17 SCHED — the cleanup goroutine (adopted as a scheduler thread through the
// context shim) interleaved with extensions, inserts with a TTL and unrelated
// updates on the same rows, under a virtual clock.
// ---------------------------------------------------------------------------

type c17Sched struct {
	name   string
	ticks  int
	twoExt bool // two concurrent extensions of a row that is NOT expired: both must count
	extend bool
	insert bool
	update bool
	setTTL bool
	full   bool // block 0 is full: the inserting thread (a row WITHOUT a time-to-live) opens block 1
}

func c17SchedScenarios() []c17Sched {
	return []c17Sched{
		{name: "pass||extend", ticks: 1, extend: true},
		{name: "2-passes||unrelated-update", ticks: 2, update: true},
		{name: "pass||insert-with-ttl||unrelated-update", ticks: 1, insert: true, update: true},
		{name: "2-passes||extend||insert-with-ttl", ticks: 2, extend: true, insert: true},
		{name: "pass||setTTL(0)", ticks: 1, setTTL: true},
		{name: "extend||extend||pass", ticks: 1, twoExt: true},
		{name: "pass||insert-opening-a-new-block", ticks: 1, full: true},
	}
}

func (sc c17Sched) instance() *eng.SchedInstance {
	w := model.NewWorld(model.Config{Cols: []model.ColDef{{Name: "n", Kind: "int"}}, Logger: "codec", Daemon: true})
	n1 := model.Write{Col: "n", V: model.Val{N: 1}}
	ttl := func(u int) model.Write { return model.Write{SetTTL: true, TTL: time.Duration(u) * c17U} }
	// rows 0 and 1 expire at T0+1u, row 2 never
	w.Txn([]model.Act{{Op: "insert", W: []model.Write{n1, ttl(1)}}, {Op: "insert", W: []model.Write{n1, ttl(1)}}, {Op: "insert", W: []model.Write{n1}}}, false)
	if sc.full {
		// rows 3..16383: filler without a time-to-live, not tracked by the model (the oracle counts them)
		w.C.Query(func(txn *column.Txn) error {
			for i := 3; i < 16384; i++ {
				txn.Insert(func(r column.Row) error { r.SetInt("n", 1); return nil })
			}
			return nil
		})
	}
	w.Advance(2 * c17U) // both deadlines have passed
	w.Sched = true
	w.Commits, w.Emitters = nil, nil
	sw := &sworld{w: w}
	if sc.twoExt {
		// row 2 gets a deadline in the future; two transactions extend it concurrently
		w.Sched = false
		w.Txn([]model.Act{{Op: "put", Off: 2, W: []model.Write{ttl(5)}}}, false)
		w.Sched = true
		w.Commits, w.Emitters = nil, nil
		sw.add("extend(row2,+1u)", []model.Act{{Op: "put", Off: 2, W: []model.Write{{Extend: true, TTL: 1 * c17U}}}}, false)
		sw.add("extend(row2,+2u)", []model.Act{{Op: "put", Off: 2, W: []model.Write{{Extend: true, TTL: 2 * c17U}}}}, false)
	}
	if sc.extend {
		sw.add("extend(row0,+5u)", []model.Act{{Op: "put", Off: 0, W: []model.Write{{Extend: true, TTL: 5 * c17U}}}}, false)
	}
	if sc.setTTL {
		sw.add("setTTL(row0,0)", []model.Act{{Op: "put", Off: 0, W: []model.Write{ttl(0)}}}, false)
	}
	if sc.insert {
		sw.add("insert(ttl 3u)", []model.Act{{Op: "insert", W: []model.Write{n1, ttl(3)}}}, false)
	}
	if sc.full {
		sw.add("insert(no ttl)", []model.Act{{Op: "insert", W: []model.Write{n1}}}, false)
	}
	if sc.update {
		sw.add("update(row1.n+=1)", []model.Act{{Op: "put", Off: 1, W: []model.Write{{Col: "n", V: model.Val{N: 1}, Merge: true}}}}, false)
	}
	daemonID := len(sw.threads)
	names := append(sw.names(), "cleanup")
	return &eng.SchedInstance{
		Threads: sw.bodies(),
		Daemon:  w.Daemon,
		Ticks:   sc.ticks,
		Close:   w.Close,
		Check: func(res *vsched.Result) (string, []eng.Violation) {
			vs := threadPanics(res, names)
			live := map[uint32]bool{}
			filler := 0
			w.C.Query(func(txn *column.Txn) error {
				return txn.Range(func(i uint32) {
					if sc.full && i >= 3 && i < 16384 {
						filler++
						return
					}
					live[i] = true
				})
			})
			// emission order in block 0: who committed before the cleanup's delete?
			protectedBefore := false // a commit that put row 0's deadline into the future (or removed it) preceded a cleanup commit
			cleanupCommits := 0
			seenProtect := false
			for i, c := range w.Commits {
				if c.Chunk != 0 || i >= len(w.Emitters) {
					continue
				}
				if w.Emitters[i] == daemonID {
					cleanupCommits++
					if seenProtect {
						protectedBefore = true
					}
				} else if (sc.extend || sc.setTTL) && w.Emitters[i] == 0 {
					seenProtect = true
				}
			}
			// offsets handed to the committed insert: a freed offset may be re-used, so
			// "row 0 / row 1" below means the ORIGINAL occupant
			fresh := map[uint32]bool{}
			for _, t := range sw.threads {
				if (t.name == "insert(ttl 3u)" || t.name == "insert(no ttl)") && t.done && t.err == nil {
					for _, off := range t.res.Inserted {
						fresh[off] = true
					}
				}
			}
			outcome := fmt.Sprintf("live=%v fresh=%v cleanup-commits=%d protect-before-cleanup=%v", sortedLive(live), sortedLive(fresh), cleanupCommits, protectedBefore)
			if !live[2] {
				vs = append(vs, eng.Violation{Assert: "expire/no-ttl-kept", Witness: "a row without a time-to-live (or with a future deadline) was removed", Detail: outcome})
			}
			if sc.full {
				if filler != 16381 {
					vs = append(vs, eng.Violation{Assert: "expire/no-ttl-kept", Witness: "a row without a time-to-live (or with a future deadline) was removed",
						Detail: fmt.Sprintf("%s; %d of the 16381 filler rows of block 0 are live", outcome, filler)})
				}
				for _, t := range sw.threads {
					if t.name == "insert(no ttl)" && t.done && t.err == nil {
						for _, off := range t.res.Inserted {
							outcome += fmt.Sprintf(" inserted@%d live=%v", off, live[off])
							if !live[off] {
								vs = append(vs, eng.Violation{Assert: "expire/no-ttl-kept", Witness: "a freshly inserted row without a time-to-live was removed",
									Detail: fmt.Sprintf("%s; the insert committed at offset %d (opening block %d) beside a cleanup pass", outcome, off, off>>14)})
							}
						}
						if got := w.C.Count(); got != filler+len(live) {
							vs = append(vs, eng.Violation{Assert: "count", Witness: "Count differs from the number of rows iteration visits",
								Detail: fmt.Sprintf("%s; Count()=%d, Range visits %d rows", outcome, got, filler+len(live))})
						}
					}
				}
			}
			if sc.twoExt && live[2] {
				// deadline = (T0+2u) + 5u + 1u + 2u
				want := model.T0.Add(10 * c17U)
				var got time.Time
				w.C.Query(func(txn *column.Txn) error {
					return txn.QueryAt(2, func(column.Row) error { got, _ = txn.TTL().ExpiresAt(); return nil })
				})
				outcome += fmt.Sprintf(" row2-deadline=T0+%v", got.Sub(model.T0))
				if !got.Equal(want) {
					vs = append(vs, eng.Violation{Assert: "ttl/extensions-add-up", Witness: "concurrent extensions of one row do not add up",
						Detail: fmt.Sprintf("row 2: deadline T0+%v after extend(+1u) || extend(+2u) on T0+7u, want T0+%v", got.Sub(model.T0), want.Sub(model.T0))})
				}
			}
			if (sc.extend || sc.setTTL) && !live[0] && !fresh[0] {
				// row 0 is gone: legitimate only if the cleanup's delete was applied before
				// the protecting transaction committed
				if seenProtect && !live[0] && protectedBeforeAll(w, daemonID) {
					vs = append(vs, eng.Violation{Assert: "expire/future-deadline-kept", Witness: "a row whose deadline was moved into the future before the cleanup's delete was applied has been removed",
						Detail: fmt.Sprintf("%s; the extension/reset of row 0 was committed before the cleanup transaction's delete was applied to the block", outcome)})
				}
			}
			if sc.insert {
				for _, t := range sw.threads {
					if t.name == "insert(ttl 3u)" && t.done && t.err == nil {
						for _, off := range t.res.Inserted {
							if !live[off] {
								vs = append(vs, eng.Violation{Assert: "expire/future-deadline-kept", Witness: "a freshly inserted row with a future deadline was removed", Detail: outcome})
							}
						}
					}
				}
			}
			// an expired, untouched row is removed once every tick has been consumed
			if live[1] && !fresh[1] {
				vs = append(vs, eng.Violation{Assert: "expire/expired-removed", Witness: "an expired row survived the cleanup passes",
					Detail: fmt.Sprintf("%s; row 1 expired at T0+1u, now T0+2u, %d pass(es) ran", outcome, sc.ticks)})
			}
			if !sc.extend && !sc.setTTL && live[0] && !fresh[0] {
				vs = append(vs, eng.Violation{Assert: "expire/expired-removed", Witness: "an expired row survived the cleanup passes", Detail: outcome + "; row 0"})
			}
			return outcome, vs
		},
	}
}

// protectedBeforeAll: in block 0 the protecting commit (thread 0) precedes every
// cleanup commit, i.e. the row's deadline was already in the future (or gone) when
// the first delete of the cleanup was applied.
func protectedBeforeAll(w *model.World, daemonID int) bool {
	seenProtect := false
	for i, c := range w.Commits {
		if c.Chunk != 0 || i >= len(w.Emitters) {
			continue
		}
		if w.Emitters[i] == 0 {
			seenProtect = true
		}
		if w.Emitters[i] == daemonID && !seenProtect {
			return false
		}
	}
	return seenProtect
}

func sortedLive(m map[uint32]bool) []uint32 { return sorted(m) }

func init() {
	c17SchedUnits = func(tier string) []eng.Unit {
		var scs []scenario
		for _, sc := range c17SchedScenarios() {
			sc := sc
			b := 2
			if tier != "quick" {
				b = 3
			}
			scs = append(scs, scenario{sc.name, b, sc.instance})
		}
		return schedUnits("C17", scs)
	}
}
