package props

import (
	"fmt"
	"sort"
	"time"

	"colverif/eng"
	"colverif/model"
	"colverif/vsched"

	"github.com/kelindar/column"
)

// ---------------------------------------------------------------------------
// C10 — a reader never sees a half-applied commit on a row.
// SCHED: rows R0 (block 0) and R1 (block 1) with the invariant a + b == 0; writers
// keep it per transaction; readers read a, yield, read b inside ONE callback.
// ---------------------------------------------------------------------------

type c10Reader struct {
	kind string // queryat, range, withint, withindex
	rows []uint32
}

type c10Scenario struct {
	name    string
	keyed   bool
	writers [][]model.Act
	readers []c10Reader
}

type c10Obs struct {
	reader int
	off    uint32
	a, b   int
	okA    bool
	okB    bool
}

func c10Scenarios() []c10Scenario {
	V := func(n int64) model.Val { return model.Val{N: uint64(n)} }
	set := func(off uint32, k int64) model.Act {
		return model.Act{Op: "put", Off: off, W: []model.Write{{Col: "a", V: V(k)}, {Col: "b", V: V(-k)}}}
	}
	inc := func(off uint32) model.Act {
		return model.Act{Op: "put", Off: off, W: []model.Write{{Col: "a", V: V(1), Merge: true}, {Col: "b", V: V(-1), Merge: true}}}
	}
	return []c10Scenario{
		{name: "set||queryat", writers: [][]model.Act{{set(R0, 5)}}, readers: []c10Reader{{"queryat", []uint32{R0}}}},
		{name: "set||inc||queryat", writers: [][]model.Act{{set(R0, 5)}, {inc(R0)}}, readers: []c10Reader{{"queryat", []uint32{R0}}}},
		{name: "set-both-rows||range", writers: [][]model.Act{{set(R0, 5), set(R1, 6)}}, readers: []c10Reader{{"range", nil}}},
		{name: "inc-both-rows||set||range", writers: [][]model.Act{{inc(R0), inc(R1)}, {set(R1, 9)}}, readers: []c10Reader{{"range", nil}}},
		{name: "set||filtered-range(WithInt)", writers: [][]model.Act{{set(R0, 5)}, {inc(R0)}}, readers: []c10Reader{{"withint", nil}}},
		{name: "set||filtered-range(index)", writers: [][]model.Act{{set(R0, 5), set(R1, 7)}}, readers: []c10Reader{{"withindex", nil}}},
		{name: "keyed/set-both-rows||querykey||upsertkey-reader", keyed: true, writers: [][]model.Act{{set(R0, 5), set(R1, 6)}},
			readers: []c10Reader{{"querykey", []uint32{R1}}, {"upsertkey", []uint32{R0}}}},
		// a point read of a row of ANOTHER block issued from inside a Range callback (the
		// same transaction): the nested callback is a point-read callback like any other
		{name: "set-r1||range-with-nested-queryat(r1)", writers: [][]model.Act{{set(R1, 5)}}, readers: []c10Reader{{"nested", []uint32{R1}}}},
		{name: "inc-both-rows||set-r1||range-with-nested-queryat(r1)", writers: [][]model.Act{{inc(R0), inc(R1)}, {set(R1, 9)}}, readers: []c10Reader{{"nested", []uint32{R1}}}},
		{name: "inc||queryat||range", writers: [][]model.Act{{inc(R0), inc(R1)}}, readers: []c10Reader{{"queryat", []uint32{R1}}, {"range", nil}}},
	}
}

func (sc c10Scenario) instance() *eng.SchedInstance {
	cols := []model.ColDef{{Name: "a", Kind: "int"}, {Name: "b", Kind: "int"}}
	seed := []model.Write{{Col: "a", V: model.Val{N: 2}}, {Col: "b", V: model.Val{N: uint64(^uint64(1))}}}
	var sw *sworld
	if sc.keyed {
		cols = append([]model.ColDef{{Name: "key", Kind: "key"}}, cols...)
		sw = newSWorld(model.Config{Cols: cols}, nil)
		sw.w.SeedReplay(map[uint32][]model.Write{
			R0: append([]model.Write{{Col: "key", V: model.Val{S: "k0"}}}, seed...),
			R1: append([]model.Write{{Col: "key", V: model.Val{S: "k1"}}}, seed...)})
		sw.w.Commits, sw.w.Emitters = nil, nil
	} else {
		sw = newSWorld(model.Config{Cols: cols}, seed)
	}
	w := sw.w
	w.C.CreateIndex("a>0", "a", func(r columnReader) bool { return r.Int() > 0 })
	for i, acts := range sc.writers {
		sw.add(fmt.Sprintf("W%d", i+1), acts, false)
	}
	var obs []c10Obs
	names := sw.names()
	bodies := sw.bodies()
	for ri, rd := range sc.readers {
		ri, rd := ri, rd
		names = append(names, fmt.Sprintf("R%d(%s)", ri+1, rd.kind))
		look := func(off uint32, r func(string) (int, bool)) {
			a, okA := r("a")
			vsched.Yield()
			b, okB := r("b")
			obs = append(obs, c10Obs{ri, off, a, b, okA, okB})
		}
		bodies = append(bodies, func() {
			switch rd.kind {
			case "querykey", "upsertkey":
				for _, off := range rd.rows {
					off := off
					key := "k0"
					if off == R1 {
						key = "k1"
					}
					fn := func(r column.Row) error {
						look(off, func(c string) (int, bool) { return r.Int(c) })
						return nil
					}
					if rd.kind == "querykey" {
						w.C.QueryKey(key, fn)
					} else {
						w.C.UpsertKey(key, fn)
					}
				}
			case "queryat":
				for _, off := range rd.rows {
					off := off
					w.C.QueryAt(off, func(r column.Row) error {
						look(off, func(c string) (int, bool) { return r.Int(c) })
						return nil
					})
				}
			case "nested":
				target := rd.rows[0]
				w.C.Query(func(txn *column.Txn) error {
					return txn.Range(func(idx uint32) {
						if idx>>14 == target>>14 {
							return // (a nested read latch on the block being iterated is re-entrant locking: not exercised)
						}
						txn.QueryAt(target, func(r column.Row) error {
							look(target, func(c string) (int, bool) { return r.Int(c) })
							return nil
						})
					})
				})
			default:
				w.C.Query(func(txn *column.Txn) error {
					switch rd.kind {
					case "withint":
						txn.WithInt("a", func(v int64) bool { return v > 0 })
					case "withindex":
						txn.With("a>0")
					}
					ra, rb := txn.Int("a"), txn.Int("b")
					return txn.Range(func(idx uint32) {
						look(idx, func(c string) (int, bool) {
							if c == "a" {
								return ra.Get()
							}
							return rb.Get()
						})
					})
				})
			}
		})
	}
	return &eng.SchedInstance{
		Threads: bodies,
		Close:   w.Close,
		Check: func(res *vsched.Result) (string, []eng.Violation) {
			vs := threadPanics(res, names)
			// committed pairs per row: every state reachable by applying any subset of the
			// writers' changes to that row in any order
			legal := map[uint32]map[[2]int]bool{}
			for _, off := range []uint32{R0, R1} {
				legal[off] = map[[2]int]bool{}
				type st struct{ a, b int }
				var ops [][]model.Write
				for _, acts := range sc.writers {
					for _, act := range acts {
						if act.Off == off {
							ops = append(ops, act.W)
						}
					}
				}
				var rec func(cur st, used []bool)
				rec = func(cur st, used []bool) {
					legal[off][[2]int{cur.a, cur.b}] = true
					for i, op := range ops {
						if used[i] {
							continue
						}
						n := cur
						for _, x := range op {
							v := int(int64(x.V.N))
							switch {
							case x.Col == "a" && x.Merge:
								n.a += v
							case x.Col == "a":
								n.a = v
							case x.Merge:
								n.b += v
							default:
								n.b = v
							}
						}
						used[i] = true
						rec(n, used)
						used[i] = false
					}
				}
				rec(st{2, -2}, make([]bool, len(ops)))
			}
			seen := map[string]bool{}
			for _, o := range obs {
				seen[fmt.Sprintf("%s@%d=(%d,%d)", names[len(sc.writers)+o.reader], o.off, o.a, o.b)] = true
				if !o.okA || !o.okB {
					vs = append(vs, eng.Violation{Assert: "row/present", Witness: "a seeded row reads as absent inside a callback", Detail: fmt.Sprintf("row %d: a present=%v b present=%v", o.off, o.okA, o.okB)})
					continue
				}
				if o.a+o.b != 0 {
					vs = append(vs, eng.Violation{Assert: "row/invariant", Witness: "one callback observes a mixture of two committed states of its row",
						Detail: fmt.Sprintf("reader %s on row %d read a=%d then b=%d inside one callback; every transaction keeps a+b=0", names[len(sc.writers)+o.reader], o.off, o.a, o.b)})
				} else if !legal[o.off][[2]int{o.a, o.b}] {
					vs = append(vs, eng.Violation{Assert: "row/committed-value", Witness: "a callback reads a value that no transaction committed",
						Detail: fmt.Sprintf("row %d read (a,b)=(%d,%d); committed pairs: %v", o.off, o.a, o.b, legal[o.off])})
				}
			}
			keys := sortedKeys(seen)
			sort.Strings(keys)
			return fmt.Sprint(keys), vs
		},
	}
}

func init() {
	eng.Register(&eng.Check{
		Prop:  "C10",
		Level: "model_checking", NodeStates: true,
		Rule: "SCHED: writers that update two columns of the same rows while keeping a+b=0 (absolute sets and merges, one row and both blocks) beside readers using QueryAt, Range, " +
			"WithInt-filtered Range, index-filtered Range and a point read of another block's row nested in a Range callback, which read a, YIELD to the scheduler, then read b inside one callback; every interleaving at every lock/atomic operation and at " +
			"the yield up to the preemption bound; oracle: inside one callback a+b=0 and (a,b) is a pair reachable by applying some of the writers' changes in some order. " +
			"states = decision nodes; distinct = distinct sets of observed pairs",
		Assumptions: []string{
			"'under real parallelism on 16 cores' is replaced by systematic interleaving at every synchronisation operation plus a yield between the two reads: this covers every sequentially consistent behaviour of data-race-free code; races themselves are the subject of C18",
			"the selection of a filtered range may be older than the values read (allowed: the property is about the callback)",
		},
		Budget: budget(170*time.Second, 28*time.Minute),
		Bounds: func(tier string) map[string]any {
			if tier == "quick" {
				return map[string]any{"preemption_bound": "4 (2 threads), 3 (3 threads)"}
			}
			return map[string]any{"preemption_bound": "6 (2 threads), 4 (3 threads)"}
		},
		Units: func(tier string) []eng.Unit {
			var scs []scenario
			for _, sc := range c10Scenarios() {
				sc := sc
				b := 3
				if len(sc.writers)+len(sc.readers) == 2 {
					b = 4
				}
				if tier != "quick" {
					b += 1
					if len(sc.writers)+len(sc.readers) == 2 {
						b += 1
					}
				}
				scs = append(scs, scenario{sc.name, b, sc.instance})
			}
			return schedUnits("C10", scs)
		},
	})
}
