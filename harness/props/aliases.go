package props

import (
	"colverif/model"

	"github.com/kelindar/column"
)

type columnReader = column.Reader
type columnRow = column.Row

// readerEquals compares what an index rule sees with a model value.
func readerEquals(k *model.KindDesc, r column.Reader, v model.Val) bool {
	switch {
	case k.Numeric && k.Float:
		return r.Float() == k.AsFloat(v)
	case k.Numeric && k.Signed:
		return readerInt(k, r) == k.AsInt(v)
	case k.Numeric:
		return uint64(r.Uint()) == k.AsUint(v)
	}
	return r.String() == v.S
}
