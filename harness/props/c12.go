package props

import (
	"fmt"
	"time"

	"colverif/eng"
	"colverif/model"
)

// ---------------------------------------------------------------------------
// C12 — primary keys behave like a map from key to one row.
// SEQ part: keys {a,b,(c)}; single key operations, every ordered pair of key
// operations in one transaction, and the same ending in error. (SCHED part in
// sched_c12.go.)
// ---------------------------------------------------------------------------

type c12Spec struct {
	depth int
	pairs bool
	small string // "" or the name of a small alphabet explored deeper
}

func (s c12Spec) name() string {
	if s.small != "" {
		return fmt.Sprintf("seq/%s/d%d", s.small, s.depth)
	}
	if s.pairs {
		return fmt.Sprintf("seq/singles+pairs/d%d", s.depth)
	}
	return fmt.Sprintf("seq/singles/d%d", s.depth)
}

var c12Keys = []string{"a", "b", "c"}

func (s c12Spec) newState() eng.SeqState {
	w := model.NewWorld(model.Config{Cols: []model.ColDef{{Name: "key", Kind: "key"}, {Name: "v", Kind: "int"}}})
	if s.small == "two-blocks" {
		one := []model.Write{{Col: "v", V: model.Val{N: 1}}}
		k := func(x string) []model.Write { return append([]model.Write{{Col: "key", V: model.Val{S: x}}}, one...) }
		w.SeedReplay(map[uint32][]model.Write{3: k("a"), 16384: k("b"), 16384 + 9: k("c")})
	}
	return &worldState{w: w, ops: s.ops, check: func(w *model.World) []eng.Violation {
		return w.Check(model.Obs{Values: true, Keys: append([]string{""}, c12Keys...)})
	}}
}

type c12Op struct {
	act     model.Act
	key     string // key whose row is read/written/deleted
	deletes bool
	writes  bool
	inserts bool
}

func c12Singles(w *model.World) (out []c12Op) {
	set := func(n uint64) []model.Write { return []model.Write{{Col: "v", V: model.Val{N: n}}} }
	for i, k := range []string{"a", "b"} {
		out = append(out,
			c12Op{act: model.Act{Op: "insertkey", Key: k, W: set(uint64(10 + i))}, key: k, inserts: true},
			c12Op{act: model.Act{Op: "upsertkey", Key: k, W: set(uint64(20 + i))}, key: k, writes: true, inserts: true},
			c12Op{act: model.Act{Op: "deletekey", Key: k}, key: k, deletes: true},
		)
	}
	out = append(out,
		c12Op{act: model.Act{Op: "querykey", Key: "a", W: set(30)}, key: "a", writes: true},
		c12Op{act: model.Act{Op: "rekey", Key: "a", NewKey: "b"}, key: "a", writes: true},
		c12Op{act: model.Act{Op: "rekey", Key: "a", NewKey: "c"}, key: "a", writes: true},
		c12Op{act: model.Act{Op: "rekey", Key: "c", NewKey: "a"}, key: "c", writes: true},
		c12Op{act: model.Act{Op: "insertkey", Key: "a", FailCb: true}, key: "a"},
		c12Op{act: model.Act{Op: "upsertkey", Key: "b", W: set(40), FailCb: true}, key: "b"},
	)
	if rows := w.M.RowsOfKey("a"); len(rows) == 1 {
		out = append(out, c12Op{act: model.Act{Op: "del", Off: rows[0]}, key: "a", deletes: true})
	}
	return out
}

// small alphabets, explored much deeper: offset re-use and re-keying need five or
// six steps to bring the lookup table and the per-offset remnants out of step
func c12Small(w *model.World, which string) (out []opx) {
	set := []model.Write{{Col: "v", V: model.Val{N: 1}}}
	keys := []string{"a", "b", "c"}
	if which == "empty-key" {
		keys = []string{"", "a"}
	}
	if which == "two-blocks" {
		// keys b and c live in the second block; new rows go to the first one
		out = append(out, txnOp(w, []model.Act{{Op: "upsertkey", Key: "b", W: set}}, false))
		out = append(out, txnOp(w, []model.Act{{Op: "rekey", Key: "c", NewKey: "a"}}, false))
		if rows := w.M.RowsOfKey("c"); len(rows) == 1 {
			out = append(out, txnOp(w, []model.Act{{Op: "del", Off: rows[0]}}, false))
		}
	}
	for _, k := range keys {
		out = append(out, txnOp(w, []model.Act{{Op: "insertkey", Key: k, W: set}}, false))
	}
	for _, k := range keys {
		out = append(out, txnOp(w, []model.Act{{Op: "deletekey", Key: k}}, false))
	}
	if which == "insert-delete-rekey" {
		out = append(out, txnOp(w, []model.Act{{Op: "rekey", Key: "b", NewKey: "a"}}, false))
		out = append(out, txnOp(w, []model.Act{{Op: "rekey", Key: "a", NewKey: "c"}}, false))
	}
	if which == "empty-key" {
		out = append(out, txnOp(w, []model.Act{{Op: "upsertkey", Key: "", W: set}}, false))
		out = append(out, txnOp(w, []model.Act{{Op: "rekey", Key: "a", NewKey: ""}}, false))
	}
	return out
}

func (s c12Spec) ops(w *model.World) (out []opx) {
	if s.small != "" {
		return c12Small(w, s.small)
	}
	singles := c12Singles(w)
	for _, o := range singles {
		out = append(out, txnOp(w, []model.Act{o.act}, false))
	}
	for _, o := range singles {
		if o.act.FailCb {
			continue
		}
		out = append(out, txnOp(w, []model.Act{o.act}, true))
	}
	if !s.pairs {
		return out
	}
	for _, x := range singles {
		for _, y := range singles {
			if x.act.FailCb || y.act.FailCb {
				continue
			}
			// not judged: writing to a row the same transaction deletes
			if x.key == y.key && ((x.deletes && y.writes) || (x.writes && y.deletes)) {
				continue
			}
			if x.act.Op == "rekey" && y.deletes && y.key == x.act.NewKey {
				continue
			}
			o := txnOp(w, []model.Act{x.act, y.act}, false)
			// two inserting operations on one key that is absent when the transaction starts
			if x.inserts && y.inserts && x.key == y.key && len(w.M.RowsOfKey(x.key)) == 0 {
				o.tag = "two inserts of one absent key in one transaction"
			}
			// a re-key onto a key that the same transaction inserts (or vice versa)
			if (x.act.Op == "rekey" && y.inserts && y.key == x.act.NewKey) || (y.act.Op == "rekey" && x.inserts && x.key == y.act.NewKey) {
				if len(w.M.RowsOfKey(x.key)) > 0 || len(w.M.RowsOfKey(y.key)) > 0 {
					o.tag = "re-key onto a key that the same transaction inserts"
				}
			}
			if x.act.Op == "rekey" && y.act.Op == "rekey" && x.act.NewKey == y.act.NewKey && x.key != y.key {
				o.tag = "two rows re-keyed onto one key in one transaction"
			}
			out = append(out, o)
		}
	}
	return out
}

func c12SeqUnits(tier string) (units []eng.Unit) {
	specs := []c12Spec{{3, false, ""}, {2, true, ""}, {6, false, "insert-delete-rekey"}, {6, false, "empty-key"}, {5, false, "two-blocks"}}
	if tier != "quick" {
		specs = []c12Spec{{4, false, ""}, {3, true, ""}, {8, false, "insert-delete-rekey"}, {8, false, "empty-key"}, {7, false, "two-blocks"}}
	}
	for _, s := range specs {
		s := s
		units = append(units, &eng.SeqSpec{UnitName: s.name(), Prop: "C12", Depth: s.depth, Split: 2, New: s.newState})
	}
	return units
}

var c12SchedUnits = func(tier string) []eng.Unit { return nil }

func init() {
	eng.Register(&eng.Check{
		Prop:  "C12",
		Level: "model_checking",
		Rule: "SEQ: every history up to depth d over single key operations {InsertKey, UpsertKey, QueryKey+write, DeleteKey, re-key a->b / a->c / c->a, DeleteAt(row of a), InsertKey with failing " +
			"callback} on keys {a,b,c}, the same ending in error, and (pairs units) every ordered pair of them in one transaction; oracle: a map - return values of the first operation on a key, " +
			"Row.Key of every row, at most one live row per key, QueryKey reaches the row whose key it is, absent keys do not resolve. SCHED: every interleaving (preemption-bounded) of concurrent " +
			"key operations on one key; oracle: linearizability against the map (brute force) and the same final-state invariants",
		Assumptions: []string{
			"within one transaction only the first operation on a key has its return value judged (what a transaction sees of its own uncommitted key changes is not fixed by the property); final states are always judged",
			"not judged: writing to a row that the same transaction deletes",
		},
		Budget: budget(170*time.Second, 28*time.Minute),
		Bounds: func(tier string) map[string]any {
			if tier == "quick" {
				return map[string]any{"seq_depth": "3 (singles), 2 (with all ordered pairs), 6 (small alphabets: insert/delete/re-key on 3 keys; empty-string key)", "keys": c12Keys, "preemption_bound": 2}
			}
			return map[string]any{"seq_depth": "4 (singles), 3 (with all ordered pairs), 8 (small alphabets)", "keys": c12Keys, "preemption_bound": 3}
		},
		Units: func(tier string) []eng.Unit { return append(c12SeqUnits(tier), c12SchedUnits(tier)...) },
	})
}
