package props

import (
	"fmt"
	"sort"

	"colverif/eng"
	"colverif/model"
	"colverif/vsched"

	"github.com/kelindar/column"
)

// ---------------------------------------------------------------------------
// C16 SCHED — a sorted index is created WHILE transactions commit to the indexed
// column; at quiescence ascending iteration must be complete and ordered.
// ---------------------------------------------------------------------------

type c16Sched struct {
	name    string
	writers [][]model.Act
}

func c16SchedScenarios() []c16Sched {
	put := func(off uint32, v string) model.Act {
		return model.Act{Op: "put", Off: off, W: []model.Write{{Col: "s", V: model.Val{S: v}}}}
	}
	return []c16Sched{
		{name: "createSortIndex||put-block0", writers: [][]model.Act{{put(R0, "a")}}},
		{name: "createSortIndex||put-block1", writers: [][]model.Act{{put(R1, "c")}}},
		{name: "createSortIndex||put-both-blocks||delete+insert", writers: [][]model.Act{{put(R0, "c"), put(R1, "a")},
			{{Op: "del", Off: R1}, {Op: "insert", W: []model.Write{{Col: "s", V: model.Val{S: "bb"}}}}}}},
	}
}

func (sc c16Sched) instance() *eng.SchedInstance {
	sw := newSWorld(model.Config{Cols: []model.ColDef{{Name: "s", Kind: "string"}}}, []model.Write{{Col: "s", V: model.Val{S: "b"}}})
	w := sw.w
	for i, acts := range sc.writers {
		sw.add(fmt.Sprintf("W%d", i+1), acts, false)
	}
	var cerr error
	names := append(sw.names(), "createSortIndex")
	bodies := append(sw.bodies(), func() { cerr = w.C.CreateSortIndex("sorted", "s") })
	return &eng.SchedInstance{
		Threads: bodies,
		Close:   w.Close,
		Check: func(res *vsched.Result) (string, []eng.Violation) {
			vs := threadPanics(res, names)
			if cerr != nil {
				vs = append(vs, eng.Violation{Assert: "createsortindex", Witness: "CreateSortIndex failed beside a writer", Detail: cerr.Error()})
			}
			// what the collection holds now, read through the column
			want := map[uint32]string{}
			w.C.Query(func(txn *column.Txn) error {
				rs := txn.String("s")
				return txn.Range(func(i uint32) {
					if v, ok := rs.Get(); ok {
						want[i] = v
					}
				})
			})
			var got []uint32
			var vals []string
			w.C.Query(func(txn *column.Txn) error {
				rs := txn.String("s")
				return txn.Ascend("sorted", func(i uint32) {
					got = append(got, i)
					v, _ := rs.Get()
					vals = append(vals, v)
				})
			})
			outcome := fmt.Sprintf("rows=%v ascend=%v%q", want, got, vals)
			seen := map[uint32]int{}
			for _, i := range got {
				seen[i]++
			}
			bad := ""
			for i := range want {
				if seen[i] != 1 {
					bad = fmt.Sprintf("row %d holding %q is visited %d times", i, want[i], seen[i])
				}
			}
			for i, n := range seen {
				if _, ok := want[i]; !ok {
					bad = fmt.Sprintf("row %d, which holds no value (or is not live), is visited %d times", i, n)
				}
			}
			if bad != "" {
				vs = append(vs, eng.Violation{Assert: "ascend/concurrent-create", Witness: "Ascend is not complete at quiescence after CreateSortIndex beside a commit", Detail: bad + "; " + outcome})
			} else if !sort.StringsAreSorted(vals) {
				vs = append(vs, eng.Violation{Assert: "ascend/concurrent-create", Witness: "Ascend is not ordered at quiescence after CreateSortIndex beside a commit", Detail: outcome})
			}
			return outcome, vs
		},
	}
}

func c16SchedUnits(tier string) []eng.Unit {
	var scs []scenario
	for _, sc := range c16SchedScenarios() {
		sc := sc
		b := 3
		if len(sc.writers) > 1 {
			b = 2
		}
		if tier != "quick" {
			b++
		}
		scs = append(scs, scenario{sc.name, b, sc.instance})
	}
	return schedUnits("C16", scs)
}
