package props

import (
	"bytes"
	"fmt"
	"time"

	"colverif/eng"
	"colverif/model"

	"github.com/kelindar/column"
)

// ---------------------------------------------------------------------------
// C17 — rows expire only after their deadline, and then do expire.
// SEQ part under a virtual clock; the cleanup goroutine of the collection is owned
// through the context/time shims, so that "one cleanup pass" is a synchronous,
// deterministic alphabet letter. (SCHED part in sched_c17.go.)
// ---------------------------------------------------------------------------

type c17Spec struct {
	depth int
	rich  bool
}

func (s c17Spec) name() string { return fmt.Sprintf("seq/virtual-clock/d%d", s.depth) }

const c17U = model.Unit

func (s c17Spec) cfg() model.Config {
	return model.Config{Cols: []model.ColDef{{Name: "n", Kind: "int"}}, Logger: "codec", Daemon: true}
}

type c17State struct {
	worldState
	spec c17Spec
}

func (s c17Spec) newState() eng.SeqState {
	st := &c17State{spec: s}
	st.w = model.NewWorld(s.cfg())
	st.ops = func(w *model.World) []opx { return s.ops(st) }
	st.check = func(w *model.World) []eng.Violation { return st.checkAll() }
	return st
}

func (st *c17State) Key() (string, bool) {
	k, nt := st.worldState.Key()
	return fmt.Sprintf("%s t=%d", k, st.w.Now().Sub(model.T0)/c17U), nt
}

// pass runs exactly one cleanup pass on the real collection and on the model.
func c17Pass(w *model.World) {
	w.Daemon.Tick()
	w.Drain()
	now := w.Now()
	for _, off := range w.M.Offsets() {
		if v, ok := w.M.Live[off].V[model.ExpireCol]; ok && v.N != 0 && now.After(time.Unix(0, int64(v.N))) {
			delete(w.M.Live, off)
		}
	}
}

func (st *c17State) checkAll() (vs []eng.Violation) {
	w := st.w
	vs = w.Check(model.Obs{Values: true})
	if w.Poisoned {
		return vs
	}
	// deadlines as reported by the TTL accessors
	for _, off := range w.M.Offsets() {
		v, has := w.M.Live[off].V[model.ExpireCol]
		hasDeadline := has && v.N != 0
		w.C.Query(func(txn *column.Txn) error {
			return txn.QueryAt(off, func(r column.Row) error {
				at, ok := txn.TTL().ExpiresAt()
				ttl, ok2 := txn.TTL().TTL()
				if ok != hasDeadline || ok2 != hasDeadline {
					vs = append(vs, eng.Violation{Assert: "ttl/reported", Witness: "TTL accessor reports a deadline for a row without one (or none for a row with one)",
						Detail: fmt.Sprintf("row %d: ExpiresAt ok=%v TTL ok=%v, model deadline present=%v", off, ok, ok2, hasDeadline)})
					return nil
				}
				if hasDeadline {
					want := time.Unix(0, int64(v.N))
					if !at.Equal(want) || ttl != want.Sub(w.Now()) {
						vs = append(vs, eng.Violation{Assert: "ttl/reported", Witness: "TTL accessor reports another deadline than the one set",
							Detail: fmt.Sprintf("row %d: ExpiresAt=%v TTL=%v, model deadline %v (now %v)", off, at.Sub(model.T0), ttl, want.Sub(model.T0), w.Now().Sub(model.T0))})
					}
					if d, ok := r.TTL(); !ok || d != want.Sub(w.Now()) {
						vs = append(vs, eng.Violation{Assert: "ttl/reported", Witness: "Row.TTL reports another deadline than the one set",
							Detail: fmt.Sprintf("row %d: Row.TTL=%v,%v want %v", off, d, ok, want.Sub(w.Now()))})
					}
				}
				return nil
			})
		})
	}
	// replica fed the stream holds the same deadlines (compared as values of the
	// expire column), including the deletions made by the cleanup
	if w.Cfg.Logger != "" {
		t := w.Twin(model.Config{}, true)
		if err := w.ReplayInto(t, 0); err != nil {
			vs = append(vs, eng.Violation{Assert: "error@replica", Witness: "Replay failed", Detail: err.Error()})
		} else {
			for _, v := range t.Check(model.Obs{Values: true}) {
				v.Assert += "@replica"
				vs = append(vs, v)
			}
		}
		t.Close()
	}
	return vs
}

func (s c17Spec) ops(st *c17State) (out []opx) {
	w := st.w
	n1 := model.Write{Col: "n", V: model.Val{N: 1}}
	ttl := func(u int) model.Write { return model.Write{SetTTL: true, TTL: time.Duration(u) * c17U} }
	out = append(out,
		txnOp(w, []model.Act{{Op: "insert", W: []model.Write{n1}}}, false),
		txnOp(w, []model.Act{{Op: "insert", W: []model.Write{n1, ttl(1)}}}, false),
		txnOp(w, []model.Act{{Op: "insert", W: []model.Write{n1, ttl(3)}}}, false),
		txnOp(w, []model.Act{{Op: "insert", W: []model.Write{n1, ttl(1), {Extend: true, TTL: 2 * c17U}}}}, false),
	)
	rows := firstRows(w, 2)
	for i, r := range rows {
		out = append(out, txnOp(w, []model.Act{{Op: "put", Off: r, W: []model.Write{ttl(2)}}}, false))
		if i == 0 {
			out = append(out, txnOp(w, []model.Act{{Op: "put", Off: r, W: []model.Write{ttl(0)}}}, false))
			out = append(out, txnOp(w, []model.Act{{Op: "put", Off: r, W: []model.Write{{Col: "n", V: model.Val{N: 1}, Merge: true}}}}, false))
		}
		if v, ok := w.M.Live[r].V[model.ExpireCol]; ok && v.N != 0 {
			out = append(out, txnOp(w, []model.Act{{Op: "put", Off: r, W: []model.Write{{Extend: true, TTL: 2 * c17U}}}}, false))
			if i == 0 {
				// several deadline changes of one row in one transaction
				out = append(out, txnOp(w, []model.Act{{Op: "put", Off: r, W: []model.Write{{Extend: true, TTL: 1 * c17U}, {Extend: true, TTL: 2 * c17U}}}}, false))
				out = append(out, txnOp(w, []model.Act{{Op: "put", Off: r, W: []model.Write{ttl(1), {Extend: true, TTL: 3 * c17U}}}}, false))
			}
		}
	}
	out = append(out,
		opx{label: "advance(1u)", run: func() []eng.Violation { w.Advance(c17U); return nil }},
		opx{label: "advance(1u+1ns)", run: func() []eng.Violation { w.Advance(c17U + 1); return nil }},
		opx{label: "cleanup-pass", run: func() []eng.Violation { c17Pass(w); return nil }},
	)
	if s.rich {
		out = append(out, opx{label: "snapshot->restore->continue on the restored collection (own cleanup)", run: func() []eng.Violation {
			snap, err := w.Snapshot()
			if err != nil {
				return []eng.Violation{{Assert: "snapshot/error", Witness: "Snapshot failed", Detail: err.Error()}}
			}
			cfg := s.cfg()
			cfg.Logger = ""
			t := w.Twin(cfg, true)
			if err := t.C.Restore(bytes.NewReader(snap)); err != nil {
				return []eng.Violation{{Assert: "restore/error", Witness: "Restore failed", Detail: err.Error()}}
			}
			st.extra = append(st.extra, w)
			st.w = t
			return nil
		}})
	}
	return out
}

var c17SchedUnits = func(tier string) []eng.Unit { return nil }

func init() {
	eng.Register(&eng.Check{
		Prop:  "C17",
		Level: "model_checking",
		Rule: "SEQ under a virtual clock with the cleanup goroutine owned by the harness: every history up to depth d over {insert without TTL / TTL 1u / TTL 3u, setTTL(2u), setTTL(0), " +
			"extend(2u) on rows holding a TTL, unrelated merge, advance(1u), advance(1u+1ns), one cleanup pass, snapshot->restore and continue (own cleanup)}; after every step the collection " +
			"equals the model (a pass at time t removes exactly the rows with 0 < deadline < t), the TTL accessors report the model deadline, and a replica fed the stream equals the model. " +
			"SCHED: cleanup passes interleaved (preemption-bounded) with extend / insert-with-TTL / unrelated update on the same rows",
		Assumptions: []string{
			"cleanup intervals are irrelevant under a virtual clock (a tick is an event): every interval is covered at once; 'within a few intervals' is decided as 'within one pass' sequentially",
			"not judged: Extend on a row without a TTL; Row.TTL on a row whose TTL was set to 0",
		},
		Budget: budget(170*time.Second, 28*time.Minute),
		Bounds: func(tier string) map[string]any {
			if tier == "quick" {
				return map[string]any{"seq_depth": 5, "preemption_bound": 2}
			}
			return map[string]any{"seq_depth": 6, "preemption_bound": 3}
		},
		Units: func(tier string) []eng.Unit {
			specs := []c17Spec{{5, true}}
			if tier != "quick" {
				specs = []c17Spec{{6, true}}
			}
			var units []eng.Unit
			for _, s := range specs {
				s := s
				units = append(units, &eng.SeqSpec{UnitName: s.name(), Prop: "C17", Depth: s.depth, Split: 2, New: s.newState})
			}
			return append(units, c17SchedUnits(tier)...)
		},
	})
}
