package props

import (
	"bytes"
	"errors"
	"fmt"
	"sort"
	"strings"

	"colverif/eng"
	"colverif/model"
	"colverif/vsched"

	"github.com/kelindar/column"
)

// ---------------------------------------------------------------------------
// C02 SCHED — until a transaction's callback returns nil, none of its changes is
// visible to any other reader. Writer W buffers changes with yields in between and
// ends in nil or error; observer O looks at the collection (or snapshots it) at
// every point the scheduler can place it.
// ---------------------------------------------------------------------------

type c02Sched struct {
	name     string
	keyed    bool
	fail     bool
	snapshot bool
	noInsert bool
}

func c02SchedScenarios() []c02Sched {
	return []c02Sched{
		{name: "commit||observer"},
		{name: "rollback||observer", fail: true},
		{name: "commit(no-insert)||observer", noInsert: true},
		{name: "rollback(no-insert)||snapshot", fail: true, noInsert: true, snapshot: true},
		{name: "commit||snapshot", snapshot: true},
		{name: "keyed/commit||observer", keyed: true},
		{name: "keyed/rollback||observer", keyed: true, fail: true},
	}
}

var errW = errors.New("verif: writer gives up")

func observe(w *model.World, keyed bool) string {
	var buf bytes.Buffer
	fmt.Fprintf(&buf, "count=%d rows=[", w.C.Count())
	w.C.Query(func(txn *column.Txn) error {
		ra := txn.Int("a")
		return txn.Range(func(idx uint32) {
			v, ok := ra.Get()
			fmt.Fprintf(&buf, "%d:a=%d/%v ", idx, v, ok)
		})
	})
	buf.WriteString("]")
	if keyed {
		for _, k := range []string{"s0", "s1", "k"} {
			err := w.C.QueryKey(k, func(r column.Row) error { fmt.Fprintf(&buf, " %s->%d", k, r.Index()); return nil })
			if err != nil {
				fmt.Fprintf(&buf, " %s->none", k)
			}
		}
	}
	return buf.String()
}

func (sc c02Sched) instance() *eng.SchedInstance {
	cols := []model.ColDef{{Name: "a", Kind: "int"}}
	var sw *sworld
	if sc.keyed {
		cols = append([]model.ColDef{{Name: "key", Kind: "key"}}, cols...)
		sw = newSWorld(model.Config{Cols: cols}, nil)
		sw.w.SeedReplay(map[uint32][]model.Write{
			R0: {{Col: "key", V: model.Val{S: "s0"}}, {Col: "a", V: model.Val{N: 2}}},
			R1: {{Col: "key", V: model.Val{S: "s1"}}, {Col: "a", V: model.Val{N: 2}}}})
	} else {
		sw = newSWorld(model.Config{Cols: cols}, []model.Write{{Col: "a", V: model.Val{N: 2}}})
	}
	w := sw.w
	w.Commits, w.Emitters = nil, nil
	pre := observe(w, sc.keyed)
	var bodyStart, bodyEnd, queryEnd int
	var oStart, oEnd int
	var seen string
	var snap bytes.Buffer
	var snapErr error
	writer := func() {
		w.C.Query(func(txn *column.Txn) error {
			bodyStart = vsched.Steps()
			txn.QueryAt(R0, func(r column.Row) error { r.SetInt("a", 7); return nil })
			vsched.Yield()
			if sc.keyed {
				txn.DeleteKey("s1")
				vsched.Yield()
				txn.UpsertKey("k", func(r column.Row) error { r.SetInt("a", 9); return nil })
			} else {
				txn.DeleteAt(R1)
				vsched.Yield()
				if !sc.noInsert {
					txn.Insert(func(r column.Row) error { r.SetInt("a", 9); return nil })
				}
			}
			vsched.Yield()
			bodyEnd = vsched.Steps()
			if sc.fail {
				return errW
			}
			return nil
		})
		queryEnd = vsched.Steps()
	}
	observer := func() {
		oStart = vsched.Steps()
		if sc.snapshot {
			snapErr = w.C.Snapshot(&snap)
		} else {
			seen = observe(w, sc.keyed)
		}
		oEnd = vsched.Steps()
	}
	names := []string{"W", "O"}
	return &eng.SchedInstance{
		Threads: []func(){writer, observer},
		Close:   w.Close,
		Check: func(res *vsched.Result) (string, []eng.Violation) {
			vs := threadPanics(res, names)
			if len(vs) > 0 {
				return "panic", vs
			}
			post := observe(w, sc.keyed)
			if sc.fail && post != pre {
				vs = append(vs, eng.Violation{Assert: "atomic/rollback-no-trace", Witness: "a rolled-back transaction left a trace", Detail: fmt.Sprintf("before %s, after %s", pre, post)})
			}
			if sc.snapshot {
				if snapErr != nil {
					return "snapshot-error", append(vs, eng.Violation{Assert: "snapshot/succeeds", Witness: "snapshot beside a transaction fails", Detail: snapErr.Error()})
				}
				t := w.Twin(model.Config{}, true)
				defer t.Close()
				if err := t.C.Restore(bytes.NewReader(snap.Bytes())); err != nil {
					return "restore-error", append(vs, eng.Violation{Assert: "restore/succeeds", Witness: "restore fails", Detail: err.Error()})
				}
				seen = observe(t, sc.keyed)
			}
			when := "overlaps-commit"
			switch {
			case oEnd <= bodyEnd && bodyEnd > 0, oEnd < bodyStart, bodyStart == 0 && oEnd > 0 && queryEnd == 0:
				when = "before-or-inside-callback"
			case oStart > queryEnd && queryEnd > 0:
				when = "after-query-returned"
			}
			want := ""
			switch when {
			case "before-or-inside-callback":
				want = pre
			case "after-query-returned":
				want = post
				if sc.fail {
					want = pre
				}
			}
			if want != "" && seen != want {
				wit := "an observer sees changes of a transaction that has not committed"
				if when == "after-query-returned" {
					wit = "an observer after the transaction returned does not see its outcome"
				} else if !sc.noInsert && sameButExtraRow(seen, pre) {
					wit = "an observer sees the offset reserved by an in-flight insert as a live row"
				}
				vs = append(vs, eng.Violation{Assert: "atomic/invisible-until-commit", Witness: wit,
					Detail: fmt.Sprintf("observation %s: saw %s, expected %s", when, seen, want)})
			}
			return when + ": " + seen, vs
		},
	}
}

// sameButExtraRow: the observation equals the pre-state except for exactly one more
// row, which holds no value (the offset an in-flight insert reserved), and a Count
// one higher; everything else (other rows, key lookups) is identical.
func sameButExtraRow(seen, pre string) bool {
	var c1, c2 int
	fmt.Sscanf(seen, "count=%d", &c1)
	fmt.Sscanf(pre, "count=%d", &c2)
	if c1 != c2+1 && c1 != c2 {
		return false // (Count and Range are two calls: the reservation may fall between them)
	}
	rs, tail1 := splitRows(seen)
	rp, tail2 := splitRows(pre)
	if tail1 != tail2 || (len(rs) != len(rp)+1 && !(len(rs) == len(rp) && c1 == c2+1)) {
		return false
	}
	if len(rs) == len(rp) {
		return fmt.Sprint(rs) == fmt.Sprint(rp)
	}
	extra := 0
	i := 0
	for _, r := range rs {
		if i < len(rp) && r == rp[i] {
			i++
			continue
		}
		extra++
		if !bytes.HasSuffix([]byte(r), []byte(":a=0/false")) {
			return false
		}
	}
	return extra == 1 && i == len(rp)
}

func splitRows(s string) (rows []string, tail string) {
	i := bytes.IndexByte([]byte(s), '[')
	j := bytes.IndexByte([]byte(s), ']')
	if i < 0 || j < i {
		return nil, s
	}
	for _, p := range bytes.Fields([]byte(s[i+1 : j])) {
		rows = append(rows, string(p))
	}
	return rows, s[j:]
}

// rollbackBesideCommit: transaction A's insert callback fails (A rolls back) while
// transaction B inserts and commits. Whatever the interleaving, A must leave no
// trace: the final state is the pre-state plus exactly B's row.
func rollbackBesideCommit(swallow bool) func() *eng.SchedInstance {
	return func() *eng.SchedInstance {
		sw := newSWorld(model.Config{Cols: []model.ColDef{{Name: "a", Kind: "int"}}}, []model.Write{{Col: "a", V: model.Val{N: 2}}})
		w := sw.w
		w.Commits, w.Emitters = nil, nil
		pre := observe(w, false)
		var bOff uint32
		var bErr, aErr error
		a := func() {
			aErr = w.C.Query(func(txn *column.Txn) error {
				_, err := txn.Insert(func(r column.Row) error { r.SetInt("a", 66); return errW })
				vsched.Yield()
				if swallow {
					// the body goes on after the failed insert, then gives up
					txn.QueryAt(R0, func(r column.Row) error { r.SetInt("a", 67); return nil })
					vsched.Yield()
				}
				return err
			})
		}
		b := func() {
			bOff, bErr = w.C.Insert(func(r column.Row) error { r.SetInt("a", 12); return nil })
		}
		return &eng.SchedInstance{
			Threads: []func(){a, b},
			Close:   w.Close,
			Check: func(res *vsched.Result) (string, []eng.Violation) {
				vs := threadPanics(res, []string{"A(rollback)", "B(commit)"})
				if len(vs) > 0 {
					return "panic", vs
				}
				post := observe(w, false)
				if aErr == nil || bErr != nil {
					vs = append(vs, eng.Violation{Assert: "query/result", Witness: "Query result differs from the body's result", Detail: fmt.Sprintf("A returned %v, B returned %v", aErr, bErr)})
				}
				// expected: pre-state plus B's row
				var c int
				fmt.Sscanf(pre, "count=%d", &c)
				rows, _ := splitRows(pre)
				rows = append(rows, fmt.Sprintf("%d:a=12/true", bOff))
				sort.Slice(rows, func(i, j int) bool {
					var x, y int
					fmt.Sscanf(rows[i], "%d:", &x)
					fmt.Sscanf(rows[j], "%d:", &y)
					return x < y
				})
				want := fmt.Sprintf("count=%d rows=[%s ]", c+1, strings.Join(rows, " "))
				if post != want {
					vs = append(vs, eng.Violation{Assert: "atomic/rollback-no-trace", Witness: "a rolled-back transaction changed what a concurrent committed transaction stored",
						Detail: fmt.Sprintf("A's insert failed and A rolled back; B inserted a=12 at %d and committed; final %s, expected %s", bOff, post, want)})
				}
				return post, vs
			},
		}
	}
}

// filterObserver: one transaction sets two bool columns of one row (and moves two
// rows of one block into an index); an observer evaluates filter algebra over them.
// Whatever the interleaving, the observer sees none or all of the transaction.
func filterObserver() *eng.SchedInstance {
	cols := []model.ColDef{{Name: "p", Kind: "bool"}, {Name: "q", Kind: "bool"}, {Name: "n", Kind: "int"}}
	sw := newSWorld(model.Config{Cols: cols}, []model.Write{{Col: "n", V: model.Val{N: 1}}})
	w := sw.w
	w.SeedReplay(map[uint32][]model.Write{R0 + 1: {{Col: "n", V: model.Val{N: 1}}}})
	w.C.CreateIndex("big", "n", func(r columnReader) bool { return r.Int() > 5 })
	w.Commits, w.Emitters = nil, nil
	writer := func() {
		w.C.Query(func(txn *column.Txn) error {
			txn.QueryAt(R0, func(r column.Row) error { r.SetBool("p", true); r.SetBool("q", true); r.SetInt("n", 9); return nil })
			return txn.QueryAt(R0+1, func(r column.Row) error { r.SetInt("n", 9); return nil })
		})
	}
	var pNotQ, qNotP, big int
	observer := func() {
		w.C.Query(func(txn *column.Txn) error { pNotQ = txn.With("p").Without("q").Count(); return nil })
		w.C.Query(func(txn *column.Txn) error { qNotP = txn.With("q").Without("p").Count(); return nil })
		w.C.Query(func(txn *column.Txn) error { big = txn.With("big").Count(); return nil })
	}
	return &eng.SchedInstance{
		Threads: []func(){writer, observer},
		Close:   w.Close,
		Check: func(res *vsched.Result) (string, []eng.Violation) {
			vs := threadPanics(res, []string{"W", "O"})
			out := fmt.Sprintf("p&^q=%d q&^p=%d |big|=%d", pNotQ, qNotP, big)
			if pNotQ != 0 || qNotP != 0 {
				vs = append(vs, eng.Violation{Assert: "atomic/all-or-nothing", Witness: "a filter sees one column change of a transaction without the other (same row, same block)",
					Detail: fmt.Sprintf("the transaction sets p and q of row %d together; observer counted With(p).Without(q)=%d, With(q).Without(p)=%d", R0, pNotQ, qNotP)})
			}
			if big != 0 && big != 2 {
				vs = append(vs, eng.Violation{Assert: "atomic/all-or-nothing", Witness: "an index shows one of two rows that one transaction moved into it (same block)",
					Detail: fmt.Sprintf("the transaction raises n of rows %d and %d together; observer counted With(big)=%d", R0, R0+1, big)})
			}
			return out, vs
		},
	}
}

func init() {
	c02SchedUnits = func(tier string) []eng.Unit {
		var scs []scenario
		scs = append(scs, scenario{"two-columns+index-in-one-block||filter-observer", 3, filterObserver})
		rb := 3
		if tier != "quick" {
			rb = 4
		}
		scs = append(scs, scenario{"failing-insert-rolls-back||insert-commits", rb, rollbackBesideCommit(false)},
			scenario{"failing-insert+more-work-rolls-back||insert-commits", rb, rollbackBesideCommit(true)})
		for _, sc := range c02SchedScenarios() {
			sc := sc
			b := 3
			if sc.snapshot {
				b = 2
			}
			if tier != "quick" {
				b++
			}
			scs = append(scs, scenario{sc.name, b, sc.instance})
		}
		return schedUnits("C02", scs)
	}
}
