package props

import (
	"bytes"
	"errors"
	"fmt"
	"os"
	"path/filepath"
	"runtime"
	"runtime/debug"
	"time"

	"colverif/eng"
	"colverif/model"
)

// ---------------------------------------------------------------------------
// C14 — a failed snapshot reports the error and leaves the collection usable.
// FAULT: for each collection, EVERY failing write-call index k and EVERY byte
// budget n of the destination writer, failing once or forever; each followed by a
// committing transaction, a healthy snapshot and a restore of it. Descriptors and
// temp files are counted around every single Snapshot call.
// ---------------------------------------------------------------------------

var errDisk = errors.New("verif: destination writer failed")

// faultWriter fails at the k-th Write call (call mode) or once n bytes were
// accepted (byte mode, with a short write); once or forever.
type faultWriter struct {
	buf     bytes.Buffer
	byCall  bool
	at      int
	forever bool
	calls   int
	failed  int
	fire    func()
	fired   bool
	tripped bool
}

func (f *faultWriter) Write(p []byte) (int, error) {
	if !f.fired {
		f.fired = true
		if f.fire != nil {
			f.fire()
		}
	}
	call := f.calls
	f.calls++
	if f.byCall {
		if (call == f.at && !f.tripped) || (f.tripped && f.forever) {
			f.tripped = true
			f.failed++
			return 0, errDisk
		}
		return f.buf.Write(p)
	}
	if f.tripped && f.forever {
		f.failed++
		return 0, errDisk
	}
	if !f.tripped && f.buf.Len()+len(p) > f.at {
		room := f.at - f.buf.Len()
		if room < 0 {
			room = 0
		}
		f.buf.Write(p[:room])
		f.tripped = true
		f.failed++
		return room, errDisk
	}
	return f.buf.Write(p)
}

func countFDs() int {
	ents, err := os.ReadDir("/proc/self/fd")
	if err != nil {
		return -1
	}
	return len(ents) - 1 // the directory handle itself
}

func countTemp() int {
	m, _ := filepath.Glob(filepath.Join(os.TempDir(), "column_*.log"))
	return len(m)
}

type c14Coll struct {
	name  string
	build func(w *model.World)
	tail  bool
	big   bool // megabytes of state: write errors surface while blocks are being written, not only at the final flush
	spec  genSpec
}

func (c c14Coll) config() model.Config { return c.spec.config(0) }

type c14Built struct {
	c      c14Coll
	nCalls int // write calls of a healthy snapshot
	nBytes int
	frames []int // s2 frame boundaries of the healthy stream (big collections)
}

func (c c14Coll) world() *model.World {
	w := model.NewWorld(c.config())
	c.build(w)
	return w
}

func (c c14Coll) tailFn(w *model.World) func() {
	if !c.tail {
		return nil
	}
	return func() {
		if c.spec.keyed {
			w.Txn([]model.Act{{Op: "insertkey", Key: "tail", W: []model.Write{{Col: "n", V: model.Val{N: 42}}, {Col: "s", V: model.Val{S: "tail"}}}}}, false)
			return
		}
		w.Txn([]model.Act{{Op: "insert", W: []model.Write{{Col: "n", V: model.Val{N: 42}}, {Col: "s", V: model.Val{S: "tail"}}}}}, false)
	}
}

func (c c14Coll) measure() *c14Built {
	w := c.world()
	defer w.Close()
	fw := &faultWriter{byCall: true, at: -1, fire: c.tailFn(w)}
	if err := w.C.Snapshot(fw); err != nil {
		panic(fmt.Sprintf("C14 %s: healthy snapshot failed: %v", c.name, err))
	}
	b := &c14Built{c: c, nCalls: fw.calls, nBytes: fw.buf.Len()}
	if c.big {
		b.frames = s2FrameBoundaries(fw.buf.Bytes())
	}
	return b
}

// snapshotCounted runs one Snapshot call with the garbage collector off (a leaked
// *os.File would otherwise be closed by its finalizer at an arbitrary time) and
// reports the change in open descriptors and temp files.
func snapshotCounted(w *model.World, dst interface{ Write([]byte) (int, error) }) (err error, dfd, dtmp int, panicked any) {
	return snapshotCountedEnv(w, dst, nil, nil)
}

// snapshotCountedEnv: pre/post run inside the counted window, right around the call
// (used to make the environment fail: an unusable temp directory).
func snapshotCountedEnv(w *model.World, dst interface{ Write([]byte) (int, error) }, pre, post func()) (err error, dfd, dtmp int, panicked any) {
	// let finalizers of earlier garbage (files leaked by earlier calls) run first, so
	// that nothing closes a descriptor inside the counted window
	for i := 0; i < 3; i++ {
		runtime.GC()
		for j := 0; j < 20; j++ {
			runtime.Gosched()
		}
	}
	old := debug.SetGCPercent(-1)
	defer debug.SetGCPercent(old)
	fd0, t0 := countFDs(), countTemp()
	func() {
		defer func() {
			if r := recover(); r != nil {
				panicked = r
			}
		}()
		if pre != nil {
			pre()
		}
		if post != nil {
			defer post()
		}
		err = w.C.Snapshot(dst)
	}()
	return err, countFDs() - fd0, countTemp() - t0, panicked
}

func (b *c14Built) run(byCall bool, at int, forever bool) (key string, nontrivial bool, sample any, vs []eng.Violation) {
	w := b.c.world()
	defer func() {
		if !w.Poisoned {
			w.Close()
		}
	}()
	desc := fmt.Sprintf("%s: writer fails at ", b.c.name)
	if byCall {
		desc += fmt.Sprintf("write call %d", at)
	} else {
		desc += fmt.Sprintf("byte %d", at)
	}
	if forever {
		desc += " (and forever)"
	} else {
		desc += " (once)"
	}
	// warm-up: lets the runtime create whatever descriptors it keeps
	var warm bytes.Buffer
	if err, _, _, p := snapshotCounted(w, &warm); err != nil || p != nil {
		return "warmup-failed", true, nil, []eng.Violation{{Assert: "snapshot/healthy", Witness: "a snapshot to a healthy writer fails", Detail: fmt.Sprintf("%s: warm-up snapshot err=%v panic=%v", desc, err, p)}}
	}
	fw := &faultWriter{byCall: byCall, at: at, forever: forever, fire: b.c.tailFn(w)}
	var err error
	var dfd, dtmp int
	var p any
	if at == c14NoTemp {
		// environment fault: the directory for temporary files cannot be used, so the
		// snapshot cannot open the file it records concurrent commits in
		desc = fmt.Sprintf("%s: temporary directory unusable", b.c.name)
		oldTmp, had := os.LookupEnv("TMPDIR")
		pre := func() { os.Setenv("TMPDIR", filepath.Join(os.TempDir(), "verif-no-such-directory")) }
		post := func() {
			if had {
				os.Setenv("TMPDIR", oldTmp)
			} else {
				os.Unsetenv("TMPDIR")
			}
		}
		err, dfd, dtmp, p = snapshotCountedEnv(w, fw, pre, post)
		if p == nil && err == nil {
			vs = append(vs, eng.Violation{Assert: "snapshot/reports-error", Witness: "Snapshot returns nil although its temporary file could not be created", Detail: desc})
		}
		fw.failed = 1 // (the environment failed, not the writer: the call is a failed one)
		if err == nil {
			fw.failed = 0
		}
	} else {
		err, dfd, dtmp, p = snapshotCounted(w, fw)
	}
	sample = map[string]any{"case": desc, "writer_failures": fw.failed, "snapshot_error": fmt.Sprint(err), "fd_delta": dfd, "temp_delta": dtmp}
	if p != nil {
		w.Poisoned = true
		return "panic", true, sample, []eng.Violation{{Assert: "no-panic", Witness: "Snapshot panicked when the writer failed", Detail: fmt.Sprintf("%s: panic: %v", desc, p)}}
	}
	key = "not-reached"
	if fw.failed > 0 {
		key = "failed"
		if err == nil {
			vs = append(vs, eng.Violation{Assert: "snapshot/reports-error", Witness: "Snapshot returns nil although the destination writer failed",
				Detail: fmt.Sprintf("%s: the writer returned an error %d time(s), Snapshot returned nil", desc, fw.failed)})
		}
	} else if err != nil {
		vs = append(vs, eng.Violation{Assert: "snapshot/healthy", Witness: "a snapshot to a healthy writer fails", Detail: fmt.Sprintf("%s: writer never failed, Snapshot returned %v", desc, err)})
	}
	if dfd != 0 {
		vs = append(vs, eng.Violation{Assert: "leak/descriptor", Witness: leakWitness(fw.failed > 0, "descriptor"),
			Detail: fmt.Sprintf("%s: open descriptors changed by %+d across the Snapshot call", desc, dfd)})
	}
	if dtmp != 0 {
		vs = append(vs, eng.Violation{Assert: "leak/tempfile", Witness: leakWitness(fw.failed > 0, "temp file"),
			Detail: fmt.Sprintf("%s: column_*.log files in TMPDIR changed by %+d across the Snapshot call", desc, dtmp)})
	}
	// the collection keeps working: a transaction that commits into EVERY block
	acts := []model.Act{{Op: "insert", W: []model.Write{{Col: "n", V: model.Val{N: 7}}, {Col: "e", V: model.Val{S: "x"}}}}}
	if b.c.spec.keyed {
		acts = []model.Act{{Op: "insertkey", Key: "after", W: []model.Write{{Col: "n", V: model.Val{N: 7}}}}}
	}
	seenBlk := map[uint32]bool{}
	for _, off := range w.M.Offsets() {
		if !seenBlk[off>>14] {
			seenBlk[off>>14] = true
			acts = append(acts, model.Act{Op: "put", Off: off, W: []model.Write{{Col: "n", V: model.Val{N: 1}, Merge: true}}})
		}
	}
	var res model.TxnRes
	if !within(c14Patience, func() { res = w.Txn(acts, false) }) {
		w.Poisoned = true
		return key, true, sample, append(vs, eng.Violation{Assert: "usable/commit", Witness: "a transaction never completes after a failed snapshot",
			Detail: fmt.Sprintf("%s: a transaction committing into every block did not return within %v", desc, c14Patience)})
	}
	vs = append(vs, res.Viol...)
	if res.Err != nil {
		vs = append(vs, eng.Violation{Assert: "usable/commit", Witness: "a transaction fails after a failed snapshot", Detail: fmt.Sprintf("%s: %v", desc, res.Err)})
	}
	if w.Poisoned {
		return key, true, sample, vs
	}
	for _, v := range w.Check(model.Obs{Values: true, Indexes: true}) {
		v.Assert = "usable/" + v.Assert
		vs = append(vs, v)
	}
	// a later snapshot to a healthy writer succeeds, leaks nothing, restores correctly
	var good bytes.Buffer
	var err2 error
	var dfd2, dtmp2 int
	var p2 any
	if !within(c14Patience, func() { err2, dfd2, dtmp2, p2 = snapshotCounted(w, &good) }) {
		w.Poisoned = true
		return key, true, sample, append(vs, eng.Violation{Assert: "usable/later-snapshot", Witness: "a later snapshot never completes",
			Detail: fmt.Sprintf("%s: a later Snapshot to a healthy writer did not return within %v", desc, c14Patience)})
	}
	if p2 != nil {
		w.Poisoned = true
		return key, true, sample, append(vs, eng.Violation{Assert: "no-panic", Witness: "a later Snapshot panicked", Detail: fmt.Sprintf("%s: %v", desc, p2)})
	}
	if err2 != nil {
		wit := "a later snapshot to a healthy writer fails"
		if fw.failed > 0 {
			wit = "after a failed snapshot a later snapshot to a healthy writer fails"
		}
		return key, true, sample, append(vs, eng.Violation{Assert: "usable/later-snapshot", Witness: wit, Detail: fmt.Sprintf("%s: later Snapshot returned %v", desc, err2)})
	}
	if dfd2 != 0 {
		vs = append(vs, eng.Violation{Assert: "leak/descriptor", Witness: leakWitness(false, "descriptor"),
			Detail: fmt.Sprintf("%s: the later healthy Snapshot changed open descriptors by %+d", desc, dfd2)})
	}
	if dtmp2 != 0 {
		vs = append(vs, eng.Violation{Assert: "leak/tempfile", Witness: leakWitness(false, "temp file"),
			Detail: fmt.Sprintf("%s: the later healthy Snapshot changed column_*.log files by %+d", desc, dtmp2)})
	}
	t := w.Twin(b.c.config(), true)
	defer t.Close()
	if err := t.C.Restore(bytes.NewReader(good.Bytes())); err != nil {
		vs = append(vs, eng.Violation{Assert: "usable/restore", Witness: "the later snapshot does not restore", Detail: fmt.Sprintf("%s: %v", desc, err)})
	} else {
		for _, v := range t.Check(model.Obs{Values: true, Indexes: true}) {
			v.Assert = "usable/restored:" + v.Assert
			vs = append(vs, v)
		}
	}
	return key, true, sample, vs
}

// within runs f and reports whether it returned within d (real time). Every
// operation here normally takes micro- or milliseconds; the generous limit only turns
// "blocks forever" into a verdict instead of a hung worker.
func within(d time.Duration, f func()) bool {
	done := make(chan struct{})
	var pan any
	go func() {
		defer close(done)
		defer func() { pan = recover() }()
		f()
	}()
	select {
	case <-done:
		if pan != nil {
			panic(pan) // (a panic of f belongs to the caller, which reports it)
		}
		return true
	case <-time.After(d):
		return false
	}
}

const c14Patience = 30 * time.Second

// c14NoTemp as the failing index selects the environment fault instead of a writer fault.
const c14NoTemp = -2

func leakWitness(failed bool, what string) string {
	if failed {
		return "a failed snapshot leaves a " + what + " behind"
	}
	return "a successful snapshot leaves a " + what + " behind"
}

func c14Colls() []c14Coll {
	V := func(n uint64) model.Val { return model.Val{N: n} }
	full := []model.Write{{Col: "n", V: V(2)}, {Col: "s", V: model.Val{S: "a"}}, {Col: "b", V: V(1)}, {Col: "e", V: model.Val{S: "x"}}}
	one := func(w *model.World) { w.Txn([]model.Act{{Op: "insert", W: full}, {Op: "insert"}}, false) }
	two := func(w *model.World) { w.SeedReplay(map[uint32][]model.Write{3: full, 16384 + 1: full}) }
	return []c14Coll{
		{name: "empty", build: func(w *model.World) {}},
		{name: "empty+commit-during-snapshot", build: func(w *model.World) {}, tail: true},
		{name: "one-block", build: one},
		{name: "one-block+commit-during-snapshot", build: one, tail: true},
		{name: "two-blocks", build: two},
		{name: "two-blocks+commit-during-snapshot", build: two, tail: true},
		{name: "two-blocks+sorted-index+trigger+commit-during-snapshot", build: two, tail: true, spec: genSpec{comp: true}},
		{name: "keyed-two-blocks+commit-during-snapshot", spec: genSpec{keyed: true}, tail: true, build: func(w *model.World) {
			w.SeedReplay(map[uint32][]model.Write{5: {{Col: "key", V: model.Val{S: "s0"}}, {Col: "n", V: V(2)}, {Col: "s", V: model.Val{S: "a"}}},
				16384 + 7: {{Col: "key", V: model.Val{S: "s1"}}, {Col: "n", V: V(2)}, {Col: "s", V: model.Val{S: "a"}}}})
		}},
		{name: "two-blocks-3MB", big: true, build: func(w *model.World) {
			rows := map[uint32][]model.Write{}
			for i := 0; i < 24; i++ {
				rows[uint32(i)] = []model.Write{{Col: "n", V: V(uint64(i))}, {Col: "s", V: model.Val{S: noise(65535, i)}}}
				rows[uint32(16384+i)] = []model.Write{{Col: "n", V: V(uint64(i))}, {Col: "s", V: model.Val{S: noise(65535, 100+i)}}}
			}
			w.SeedReplay(rows)
		}},
	}
}

func init() {
	eng.Register(&eng.Check{
		Prop:  "C14",
		Level: "fault_enumeration",
		Rule: "fault sequences = for each collection (empty / one block / two blocks, with and without a transaction committed while the snapshot is being written; also with a sorted index and a trigger, and keyed) EVERY write-call index " +
			"k = 0..K+1 and EVERY byte budget n = 0..|B| at which the destination starts failing (short write), failing once and failing forever, and the environment fault 'temporary directory unusable'; each followed by a committing transaction, a " +
			"Snapshot to a healthy writer and a Restore of it. Oracle: the failing call returns non-nil iff the writer returned an error; the transaction commits and is visible; the healthy " +
			"snapshot returns nil and restores to the model; open descriptors (/proc/self/fd) and column_*.log files in the private TMPDIR are unchanged across EVERY Snapshot call (GC off " +
			"while counting). distinct = distinct (collection, reached/not-reached) classes",
		Assumptions: []string{"'repeated hundreds of times to expose leaks' is replaced by exact descriptor and temp-file accounting around every single call, after one warm-up call"},
		Budget:      budget(170*time.Second, 28*time.Minute),
		Units: func(tier string) (units []eng.Unit) {
			for _, c := range c14Colls() {
				c := c
				built := c.measure() // eager, fixed order: same sizes in every process
				get := func() *c14Built { return built }
				units = append(units, &eng.FlatSpec{UnitName: c.name + "/tempdir-unusable", Prop: "C14", Chunk: 1, Outcomes: true,
					N:    func() int { return 1 },
					Case: func(i int) (string, bool, any, []eng.Violation) { return get().run(true, c14NoTemp, false) }})
				for _, forever := range []bool{false, true} {
					forever := forever
					mode := "once"
					if forever {
						mode = "forever"
					}
					units = append(units, &eng.FlatSpec{UnitName: c.name + "/call-index/" + mode, Prop: "C14", Chunk: 8, Outcomes: true,
						N:    func() int { return get().nCalls + 2 },
						Case: func(i int) (string, bool, any, []eng.Violation) { return get().run(true, i, forever) }})
					if c.big {
						// byte budgets: every s2 frame boundary of the healthy stream, -1 / +0 / +1
						units = append(units, &eng.FlatSpec{UnitName: c.name + "/byte-budget-at-frame-edges/" + mode, Prop: "C14", Chunk: 4, Outcomes: true,
							N: func() int { return 3 * len(get().frames) },
							Case: func(i int) (string, bool, any, []eng.Violation) {
								b := get()
								return b.run(false, b.frames[i/3]+i%3-1, forever)
							}})
						continue
					}
					units = append(units, &eng.FlatSpec{UnitName: c.name + "/byte-budget/" + mode, Prop: "C14", Chunk: 32, Outcomes: true,
						N:    func() int { return get().nBytes + 8 },
						Case: func(i int) (string, bool, any, []eng.Violation) { return get().run(false, i, forever) }})
				}
			}
			return units
		},
	})
}

var _ = time.Second
