package props

import (
	"fmt"

	"colverif/eng"
	"colverif/model"
	"colverif/vsched"

	"github.com/kelindar/column"
)

// ---------------------------------------------------------------------------
// C03 SCHED — an index is created WHILE transactions commit to the indexed column.
// At quiescence (both returned: "no transaction is committing") the index must
// select exactly the live rows whose current value satisfies the predicate. The
// predicate itself is the witness: it records which thread evaluated which row on
// which value, so that a stale index bit can be attributed.
// ---------------------------------------------------------------------------

type c03Eval struct {
	thread int
	off    uint32
	val    int
}

type c03Sched struct {
	name    string
	writers [][]model.Act
}

func c03SchedScenarios() []c03Sched {
	put := func(off uint32, v uint64) model.Act {
		return model.Act{Op: "put", Off: off, W: []model.Write{{Col: "n", V: model.Val{N: v}}}}
	}
	return []c03Sched{
		{name: "createIndex||put-block0", writers: [][]model.Act{{put(R0, 9)}}},
		{name: "createIndex||put-block1", writers: [][]model.Act{{put(R1, 9)}}},
		{name: "createIndex||put-both-blocks||delete", writers: [][]model.Act{{put(R0, 9), put(R1, 9)}, {{Op: "del", Off: R1}}}},
	}
}

func (sc c03Sched) instance() *eng.SchedInstance {
	// rows R0 and R1 hold n=2 (predicate n>5 false)
	sw := newSWorld(model.Config{Cols: []model.ColDef{{Name: "n", Kind: "int"}}}, []model.Write{{Col: "n", V: model.Val{N: 2}}})
	w := sw.w
	for i, acts := range sc.writers {
		sw.add(fmt.Sprintf("W%d", i+1), acts, false)
	}
	var evals []c03Eval
	var cerr error
	creator := len(sw.threads)
	names := append(sw.names(), "createIndex")
	bodies := append(sw.bodies(), func() {
		cerr = w.C.CreateIndex("late", "n", func(r column.Reader) bool {
			evals = append(evals, c03Eval{vsched.Self(), r.Index(), r.Int()})
			return r.Int() > 5
		})
	})
	return &eng.SchedInstance{
		Threads: bodies,
		Close:   w.Close,
		Check: func(res *vsched.Result) (string, []eng.Violation) {
			vs := threadPanics(res, names)
			if cerr != nil {
				vs = append(vs, eng.Violation{Assert: "createindex", Witness: "CreateIndex failed beside a writer", Detail: cerr.Error()})
			}
			outcome := ""
			selected := map[uint32]bool{}
			w.C.Query(func(txn *column.Txn) error { return txn.With("late").Range(func(i uint32) { selected[i] = true }) })
			for _, off := range []uint32{R0, R1} {
				var cur int
				live := false
				w.C.QueryAt(off, func(r column.Row) error { cur, live = r.Int("n"); return nil })
				liveRow := false
				w.C.Query(func(txn *column.Txn) error { return txn.Range(func(i uint32) { liveRow = liveRow || i == off }) })
				want := liveRow && live && cur > 5
				outcome += fmt.Sprintf("row%d: n=%d live=%v indexed=%v; ", off, cur, liveRow, selected[off])
				if selected[off] == want {
					continue
				}
				// who evaluated the predicate for this row, on what?
				var hist []string
				byWriter, lastCreator := false, false
				for _, e := range evals {
					if e.off != off {
						continue
					}
					hist = append(hist, fmt.Sprintf("%s(n=%d)", names[e.thread], e.val))
					lastCreator = e.thread == creator
					if e.thread != creator {
						byWriter = true
					}
				}
				wit := "index differs from the predicate at quiescence after CreateIndex beside a commit"
				switch {
				case byWriter && lastCreator:
					// the commit evaluated the new value, then the back-fill applied the value it had read before
					wit = "the index back-fill applies a value it read before a commit that the index had already followed"
				case !byWriter && liveRow:
					wit = "a commit made while the index was being built never reached the index"
				}
				vs = append(vs, eng.Violation{Assert: "index/concurrent-create", Witness: wit,
					Detail: fmt.Sprintf("row %d: n=%d, live=%v, With(late) selects it: %v; predicate evaluations for the row: %v", off, cur, liveRow, selected[off], hist)})
			}
			return outcome, vs
		},
	}
}

func c03SchedUnits(tier string) []eng.Unit {
	var scs []scenario
	for _, sc := range c03SchedScenarios() {
		sc := sc
		b := 3
		if len(sc.writers) > 1 {
			b = 2
		}
		if tier != "quick" {
			b++
		}
		scs = append(scs, scenario{sc.name, b, sc.instance})
	}
	return schedUnits("C03", scs)
}
