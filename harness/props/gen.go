package props

import (
	"bytes"
	"fmt"
	"strings"
	"time"

	"colverif/eng"
	"colverif/model"

	"github.com/kelindar/column/commit"
)

// ---------------------------------------------------------------------------
// genSpec is the general-history SEQ spec shared by C02, C06, C07 and C15: one
// schema with a column of several kinds (or a keyed schema), bitmap indexes, a
// recording logger, and an alphabet of committing and rolling-back transactions.
// What is asserted at every node is selected by flags.
// ---------------------------------------------------------------------------

type genSpec struct {
	prop    string
	keyed   bool
	logger  string // channel, codec, log
	preset  string
	depth   int
	replica bool  // C06: a replica fed the stream equals the model
	stream  bool  // C15: exactly-once, distinct non-zero ids, per-block increasing
	shadow  bool  // C02: a shadow collection that never sees the failing transactions behaves identically
	restore []int // C07: letters "snapshot -> restore into a fresh collection of capacity c and continue there"
	rich    bool  // larger alphabet
	comp    bool  // the schema also has a sorted index and a trigger (computed columns besides bitmap indexes)
}

func (s genSpec) name() string {
	sch := "mixed"
	if s.keyed {
		sch = "keyed"
	}
	if s.comp {
		sch += "+computed"
	}
	return fmt.Sprintf("seq/%s/%s/%s/d%d", sch, s.logger, s.preset, s.depth)
}

var genCols = []model.ColDef{{Name: "n", Kind: "int"}, {Name: "s", Kind: "string"}, {Name: "b", Kind: "bool"}, {Name: "e", Kind: "enum"},
	{Name: "r", Kind: "record"}, {Name: "f", Kind: "float64"}, {Name: "u", Kind: "uint16"}}
var genKeyedCols = []model.ColDef{{Name: "key", Kind: "key"}, {Name: "n", Kind: "int"}, {Name: "s", Kind: "string"}}

type genState struct {
	worldState
	before   *model.Model // model before the current transaction (stream oracle)
	spec     genSpec
	sh       *model.World // shadow (C02)
	restores int
}

func (s genSpec) config(capacity int) model.Config {
	cfg := model.Config{Capacity: capacity, Cols: genCols, Indexes: []string{"n>1", "s=a", "b=t", "e=x"}, Logger: s.logger}
	if s.keyed {
		cfg.Cols = genKeyedCols
		cfg.Indexes = []string{"n>1", "s=a"}
	}
	if s.comp {
		cfg.Sorted = [][2]string{{"sorted:s", "s"}}
		cfg.Triggers = [][2]string{{"trig:n", "n"}}
	}
	return cfg
}

func (s genSpec) seed() []model.Write {
	return []model.Write{{Col: "n", V: model.Val{N: 2}}, {Col: "s", V: model.Val{S: "a"}}}
}

func (s genSpec) newState() eng.SeqState {
	st := &genState{spec: s}
	st.w = model.NewWorld(s.config(0))
	st.w.OwnReads = s.shadow
	if s.keyed {
		if s.preset != "empty" {
			st.w.SeedReplay(map[uint32][]model.Write{5: append(s.seed(), model.Write{Col: "key", V: model.Val{S: "s0"}}),
				16384 + 7: append(s.seed(), model.Write{Col: "key", V: model.Val{S: "s1"}})})
		}
	} else {
		applyPreset(st.w, s.preset, s.seed())
	}
	if s.shadow {
		st.sh = model.NewWorld(s.config(0))
		if s.keyed {
			if s.preset != "empty" {
				st.sh.SeedReplay(map[uint32][]model.Write{5: append(s.seed(), model.Write{Col: "key", V: model.Val{S: "s0"}}),
					16384 + 7: append(s.seed(), model.Write{Col: "key", V: model.Val{S: "s1"}})})
			}
		} else {
			applyPreset(st.sh, s.preset, s.seed())
		}
		st.extra = append(st.extra, st.sh)
	}
	st.ops = func(w *model.World) []opx { return s.ops(st) }
	st.check = func(w *model.World) []eng.Violation { return st.checkAll() }
	return st
}

func (st *genState) Key() (string, bool) {
	k, nt := st.worldState.Key()
	return fmt.Sprintf("%s r%d", k, st.restores), nt
}

func (st *genState) obs() model.Obs {
	// the stream property (C15) needs conforming states, not index contents
	o := model.Obs{Values: true, Indexes: !st.spec.stream}
	if st.spec.keyed {
		o.Keys = []string{"a", "b", "s0", "s1"}
	}
	return o
}

func (st *genState) checkAll() (vs []eng.Violation) {
	w := st.w
	vs = w.Check(st.obs())
	if w.Poisoned {
		return vs
	}
	if st.spec.shadow && st.sh != nil && !st.sh.Poisoned {
		for _, v := range st.sh.Check(st.obs()) {
			v.Assert += "@shadow"
			vs = append(vs, v)
		}
	}
	if st.spec.replica {
		vs = append(vs, st.checkReplica()...)
	}
	return vs
}

func (st *genState) checkReplica() (vs []eng.Violation) {
	w := st.w
	if w.RecErr() != nil {
		return []eng.Violation{{Assert: "stream/logger-error", Witness: "logger round trip failed", Detail: w.RecErr().Error()}}
	}
	t := w.Twin(st.spec.config(0), true)
	defer t.Close()
	defer func() {
		if r := recover(); r != nil {
			vs = append(vs, eng.Violation{Assert: "no-panic@replica", Witness: "panic while replaying", Detail: fmt.Sprint(r)})
		}
	}()
	if err := w.ReplayInto(t, 0); err != nil {
		return []eng.Violation{{Assert: "error@replica", Witness: "Replay failed", Detail: err.Error()}}
	}
	eng.Sub["replicas_compared"]++
	for _, v := range t.Check(st.obs()) {
		v.Assert += "@replica"
		vs = append(vs, v)
	}
	return vs
}

// txn runs a transaction on the world (and the shadow) and applies the stream and
// atomicity oracles that concern this single step.
func (st *genState) txn(acts []model.Act, fail bool, tag string) opx {
	return opx{label: model.ActsString(acts, fail), tag: tag, run: func() []eng.Violation {
		w := st.w
		willFail := fail
		for _, a := range acts {
			if a.FailCb && !a.Swallow {
				willFail = true
			}
		}
		var before *model.Model
		if st.spec.stream {
			before = w.M.Clone()
		}
		res := w.Txn(acts, fail)
		vs := res.Viol
		if w.Poisoned {
			return vs
		}
		st.before = before
		if (res.Err != nil) != willFail && !st.spec.keyed {
			vs = append(vs, eng.Violation{Assert: "query/result", Witness: "Query result differs from the body's result", Detail: fmt.Sprintf("%s returned %v", model.ActsString(acts, fail), res.Err)})
		}
		if st.spec.stream || st.spec.shadow {
			vs = append(vs, st.checkStream(acts, fail, &res)...)
		}
		if st.spec.shadow && st.sh != nil && !st.sh.Poisoned && res.Err == nil {
			// the shadow runs only the transactions that commit; later inserts must
			// behave identically (same offsets), i.e. a rollback left no trace
			sres := st.sh.Txn(acts, fail)
			if fmt.Sprint(sres.Inserted) != fmt.Sprint(res.Inserted) {
				vs = append(vs, eng.Violation{Assert: "atomic/later-inserts", Witness: "inserts after a rollback receive other offsets than without the rolled-back transaction",
					Detail: fmt.Sprintf("%s inserted at %v; a collection that never ran the failing transactions inserts at %v", model.ActsString(acts, fail), res.Inserted, sres.Inserted)})
			}
		}
		return vs
	}}
}

// checkStream: exactly one commit per changed block, nothing otherwise; ids
// non-zero, distinct, increasing per block.
func (st *genState) checkStream(acts []model.Act, fail bool, res *model.TxnRes) (vs []eng.Violation) {
	w := st.w
	if err := w.RecErr(); err != nil {
		return []eng.Violation{{Assert: "stream/logger-error", Witness: "logger round trip failed", Detail: err.Error()}}
	}
	newc := w.Commits[len(w.Commits)-res.Emitted:]
	var got []uint32
	for _, c := range newc {
		got = append(got, uint32(c.Chunk))
	}
	want := res.Blocks
	if res.Err != nil {
		want = nil
	}
	// a block in which the transaction buffered operations that left every row as it
	// was (a store of the value already there) may or may not count as "changed": the
	// property does not say, so zero or one commit is accepted for it
	if st.before != nil && res.Err == nil {
		var strict, lenientGot []uint32
		for _, b := range want {
			if blockEqual(st.before, w.M, b) {
				continue
			}
			strict = append(strict, b)
		}
		for _, b := range got {
			keep := false
			for _, x := range strict {
				if x == b {
					keep = true
				}
			}
			dup := false
			for _, x := range lenientGot {
				if x == b {
					dup = true
				}
			}
			if keep || dup || !containsU32(want, b) {
				lenientGot = append(lenientGot, b)
			}
		}
		got, want = lenientGot, strict
	}
	if fmt.Sprint(got) != fmt.Sprint(want) {
		wit := "emitted commits differ from the blocks the transaction changed"
		if res.Err != nil {
			wit = "a rolled-back transaction emitted commits"
		} else if len(want) == 0 {
			wit = "a transaction that changed nothing emitted commits"
		}
		vs = append(vs, eng.Violation{Assert: "stream/exactly-once", Witness: wit,
			Detail: fmt.Sprintf("%s: emitted commits for blocks %v, changed blocks %v", model.ActsString(acts, fail), got, want)})
	}
	last := map[commit.Chunk]uint64{}
	seen := map[uint64]bool{}
	for _, c := range w.Commits {
		if c.ID == 0 {
			vs = append(vs, eng.Violation{Assert: "stream/id-nonzero", Witness: "commit with ID 0", Detail: fmt.Sprintf("commit for block %d has ID 0", c.Chunk)})
			break
		}
		if seen[c.ID] {
			vs = append(vs, eng.Violation{Assert: "stream/id-distinct", Witness: "two commits share an ID", Detail: fmt.Sprintf("ID %d emitted twice", c.ID)})
			break
		}
		seen[c.ID] = true
		if c.ID <= last[c.Chunk] {
			vs = append(vs, eng.Violation{Assert: "stream/id-order", Witness: "IDs of one block not increasing in emission order", Detail: fmt.Sprintf("block %d: ID %d after %d", c.Chunk, c.ID, last[c.Chunk])})
			break
		}
		last[c.Chunk] = c.ID
	}
	return vs
}

func (s genSpec) ops(st *genState) (out []opx) {
	w := st.w
	V := func(n uint64) model.Val { return model.Val{N: n} }
	S := func(x string) model.Val { return model.Val{S: x} }
	W := func(col string, v model.Val) model.Write { return model.Write{Col: col, V: v} }
	M := func(col string, v model.Val) model.Write { return model.Write{Col: col, V: v, Merge: true} }
	varlen := "variable-length merge then overwrite of the same row in one transaction"
	if s.keyed {
		set := func(n uint64) []model.Write { return []model.Write{W("n", V(n)), W("s", S("a"))} }
		singles := []model.Act{
			{Op: "insertkey", Key: "a", W: set(3)}, {Op: "insertkey", Key: "b", W: set(1)},
			{Op: "upsertkey", Key: "a", W: []model.Write{M("n", V(1))}}, {Op: "upsertkey", Key: "b", W: set(5)},
			{Op: "deletekey", Key: "a"}, {Op: "deletekey", Key: "b"},
			{Op: "rekey", Key: "a", NewKey: "b"}, {Op: "rekey", Key: "b", NewKey: "a"},
			{Op: "querykey", Key: "s1", W: []model.Write{W("s", S("b"))}}, {Op: "deletekey", Key: "s0"},
		}
		for _, a := range singles {
			out = append(out, st.txn([]model.Act{a}, false, ""))
		}
		for _, a := range singles[:6] {
			out = append(out, st.txn([]model.Act{a}, true, ""))
		}
		out = append(out, st.txn([]model.Act{{Op: "insertkey", Key: "a", W: set(3), FailCb: true}}, false, ""))
		// the callback of an upsert fails: for a new key and for an existing one the
		// transaction must roll back as a whole
		out = append(out, st.txn([]model.Act{{Op: "upsertkey", Key: "b", W: set(6), FailCb: true}}, false, ""))
		out = append(out, st.txn([]model.Act{{Op: "querykey", Key: "s1", W: []model.Write{W("n", V(8))}}, {Op: "upsertkey", Key: "a", W: set(6), FailCb: true}}, false, ""))
		out = append(out, st.txn([]model.Act{{Op: "insert", W: set(8), FailCb: true, Swallow: true}, {Op: "deletekey", Key: "b"}}, false, ""))
		out = append(out, st.txn([]model.Act{{Op: "upsertkey", Key: "a", W: set(4)}, {Op: "querykey", Key: "s1", W: []model.Write{M("n", V(2))}}}, false, ""))
	} else {
		full := []model.Write{W("n", V(2)), W("s", S("a")), W("b", V(1)), W("e", S("x")), W("r", S("r")), W("f", V(0x3ff8000000000000)), W("u", V(65535))}
		out = append(out,
			st.txn([]model.Act{{Op: "insert", W: full}}, false, ""),
			st.txn([]model.Act{{Op: "insert", W: []model.Write{W("n", V(1))}}}, false, ""),
			st.txn([]model.Act{{Op: "insert"}}, false, ""),
			st.txn([]model.Act{{Op: "insert", W: []model.Write{M("n", V(5)), M("s", S("x")), M("r", S("z"))}}}, false, ""),
			st.txn(nil, false, ""), // read-only
			st.txn([]model.Act{{Op: "insert", W: full}, {Op: "insert", W: []model.Write{W("n", V(1))}}}, true, ""),
			st.txn([]model.Act{{Op: "insert", W: full, FailCb: true}}, false, ""),
			st.txn([]model.Act{{Op: "insert", W: full}, {Op: "insert", W: full, FailCb: true}}, false, ""),
		)
		rows := firstRows(w, 1)
		hi, hasHi := lastRow(w)
		for _, r := range rows {
			out = append(out,
				st.txn([]model.Act{{Op: "put", Off: r, W: []model.Write{W("n", V(1)), W("s", S("b")), W("b", V(0)), W("e", S("y"))}}}, false, ""),
				st.txn([]model.Act{{Op: "put", Off: r, W: []model.Write{W("n", V(3)), W("b", V(1)), W("r", S("q")), W("f", V(0x7ff8000000000001)), W("u", V(0))}}}, false, ""),
				st.txn([]model.Act{{Op: "put", Off: r, W: []model.Write{M("n", V(1)), M("f", V(0x3fd0000000000000)), M("u", V(65535))}}}, false, ""),
				// present-but-empty / zero values: presence must travel, not only content
				st.txn([]model.Act{{Op: "put", Off: r, W: []model.Write{W("s", S("")), W("e", S("")), W("r", S("")), W("n", V(0)), W("f", V(0)), W("u", V(0)), W("b", V(0))}}}, false, ""),
				st.txn([]model.Act{{Op: "put", Off: r, W: []model.Write{M("s", S("x")), M("r", S("z"))}}}, false, ""),
				st.txn([]model.Act{{Op: "put", Off: r, W: []model.Write{W("n", V(7)), M("n", V(1)), M("n", V(1))}}}, false, ""),
				st.txn([]model.Act{{Op: "del", Off: r}}, false, ""),
				st.txn([]model.Act{{Op: "put", Off: r, W: []model.Write{W("n", V(9)), M("s", S("x"))}}, {Op: "insert", W: full}}, true, ""),
				st.txn([]model.Act{{Op: "del", Off: r}, {Op: "insert", W: full}}, true, ""),
				st.txn([]model.Act{{Op: "put", Off: r, W: []model.Write{{SetTTL: true, TTL: time.Hour}}}}, false, ""),
			)
			// a failing insert whose error the body ignores, then a delete: the delete
			// (values, index entries, offset re-use) must be applied in full
			out = append(out, st.txn([]model.Act{{Op: "insert", W: full, FailCb: true, Swallow: true}, {Op: "del", Off: r}}, false, ""))
			if s.rich {
				out = append(out, st.txn([]model.Act{{Op: "delall"}}, false, ""))
				out = append(out, st.txn([]model.Act{{Op: "delall"}, {Op: "insert", W: full}}, true, ""))
				if s.replica {
					// (only where the recorded variable-length-swap finding is listed: C06)
					out = append(out, st.txn([]model.Act{{Op: "put", Off: r, W: []model.Write{M("s", S("x")), W("s", S("a"))}}}, false, varlen))
				}
				out = append(out, st.txn([]model.Act{{Op: "del", Off: r}, {Op: "insert", W: []model.Write{M("n", V(5))}}}, false, ""))
			}
			if hasHi && hi != r {
				out = append(out,
					st.txn([]model.Act{{Op: "put", Off: hi, W: []model.Write{W("n", V(1)), M("s", S("y"))}}, {Op: "put", Off: r, W: []model.Write{M("n", V(2)), W("e", S("y"))}}}, false, ""),
					st.txn([]model.Act{{Op: "del", Off: hi}, {Op: "put", Off: r, W: []model.Write{W("s", S("a"))}}}, false, ""),
					st.txn([]model.Act{{Op: "del", Off: hi}, {Op: "put", Off: r, W: []model.Write{W("s", S("a"))}}}, true, ""),
				)
			}
		}
	}
	for _, cp := range s.restore {
		cp := cp
		out = append(out, opx{label: fmt.Sprintf("snapshot->restore(capacity %d)->continue on the restored collection", cp), run: func() []eng.Violation {
			snap, err := w.Snapshot()
			if err != nil {
				return []eng.Violation{{Assert: "snapshot/error", Witness: "Snapshot failed", Detail: err.Error()}}
			}
			t := w.Twin(s.config(cp), true)
			t.Cfg.Logger = ""
			var vs []eng.Violation
			func() {
				defer func() {
					if r := recover(); r != nil {
						t.Poisoned = true
						vs = append(vs, eng.Violation{Assert: "no-panic@restore", Witness: "panic in Restore", Detail: fmt.Sprint(r)})
					}
				}()
				if err := t.C.Restore(bytes.NewReader(snap)); err != nil {
					vs = append(vs, eng.Violation{Assert: "restore/error", Witness: "Restore failed", Detail: err.Error()})
				}
			}()
			// continue on the restored collection; the original stays for comparison
			st.extra = append(st.extra, w)
			st.w = t
			st.restores++
			return vs
		}})
	}
	return out
}

func genUnits(specs []genSpec) (units []eng.Unit) {
	for _, s := range specs {
		s := s
		units = append(units, &eng.SeqSpec{UnitName: s.name(), Prop: s.prop, Depth: s.depth, Split: 2, New: s.newState})
	}
	return units
}

var _ = strings.Join

func containsU32(xs []uint32, x uint32) bool {
	for _, y := range xs {
		if y == x {
			return true
		}
	}
	return false
}

// blockEqual: the two models hold the same rows with the same values in one block.
func blockEqual(a, b *model.Model, blk uint32) bool {
	for off, ra := range a.Live {
		if off>>14 != blk {
			continue
		}
		rb, ok := b.Live[off]
		if !ok || len(ra.V) != len(rb.V) {
			return false
		}
		for k, v := range ra.V {
			if rb.V[k] != v {
				return false
			}
		}
	}
	for off := range b.Live {
		if off>>14 == blk {
			if _, ok := a.Live[off]; !ok {
				return false
			}
		}
	}
	return true
}
