package props

import (
	"fmt"
	"time"

	"colverif/eng"
	"colverif/model"

	"github.com/kelindar/column"
)

// ---------------------------------------------------------------------------
// C11 — insert offsets never collide; reused offsets carry no stale data.
// SEQ part: histories of inserts/deletes producing full, sparse and fragmented fill
// patterns across word and block edges, on every capacity. (The SCHED part lives in
// sched_c11.go.)
// ---------------------------------------------------------------------------

type c11Spec struct {
	preset string
	cap    int
	depth  int
	probe  bool
}

func (s c11Spec) name() string { return fmt.Sprintf("seq/%s/cap%d/d%d", s.preset, s.cap, s.depth) }

func (s c11Spec) newState() eng.SeqState {
	w := model.NewWorld(model.Config{Capacity: s.cap, Cols: []model.ColDef{{Name: "v", Kind: "int"}, {Name: "s", Kind: "string"}}})
	// an index over v (true for every value the letters store): membership is data a
	// previous occupant may leave behind, too
	rule := func(r column.Reader) bool { return r.Int() > 1 }
	if err := w.C.CreateIndex("v>1", "v", rule); err != nil {
		panic(err)
	}
	w.M.Indexes = append(w.M.Indexes, &model.IndexDef{Name: "v>1", Col: "v", Pred: func(v model.Val) bool { return int64(v.N) > 1 }, Rule: rule})
	applyPreset(w, s.preset, []model.Write{{Col: "v", V: model.Val{N: 3}}, {Col: "s", V: model.Val{S: "old"}}})
	return &worldState{w: w, ops: s.ops, check: c11Check}
}

// c11Check: full comparison plus aggregates and value filters, which read the raw
// value arrays and would expose data left behind by a previous occupant.
func c11Check(w *model.World) (vs []eng.Violation) {
	vs = w.Check(model.Obs{Values: true, Indexes: true})
	if w.Poisoned {
		return vs
	}
	var wantSum int64
	var withV, withS []uint32
	for _, off := range w.M.Offsets() {
		if v, ok := w.M.Live[off].V["v"]; ok {
			wantSum += int64(v.N)
			withV = append(withV, off)
		}
		if _, ok := w.M.Live[off].V["s"]; ok {
			withS = append(withS, off)
		}
	}
	var sum int
	var gotV, gotS []uint32
	w.C.Query(func(txn *column.Txn) error {
		sum = txn.Int("v").Sum()
		return nil
	})
	w.C.Query(func(txn *column.Txn) error {
		return txn.WithInt("v", func(int64) bool { return true }).Range(func(i uint32) { gotV = append(gotV, i) })
	})
	w.C.Query(func(txn *column.Txn) error {
		return txn.WithString("s", func(string) bool { return true }).Range(func(i uint32) { gotS = append(gotS, i) })
	})
	if int64(sum) != wantSum {
		vs = append(vs, eng.Violation{Assert: "reuse/sum", Witness: "Sum over all rows differs from the live rows' values", Detail: fmt.Sprintf("Sum(v)=%d, live rows sum to %d", sum, wantSum)})
	}
	if fmt.Sprint(gotV) != fmt.Sprint(withV) {
		vs = append(vs, eng.Violation{Assert: "reuse/filter", Witness: "value filter selects rows that hold no value", Detail: fmt.Sprintf("WithInt(v,true) selects %d rows, %d live rows hold v", len(gotV), len(withV))})
	}
	if fmt.Sprint(gotS) != fmt.Sprint(withS) {
		vs = append(vs, eng.Violation{Assert: "reuse/filter", Witness: "value filter selects rows that hold no value", Detail: fmt.Sprintf("WithString(s,true) selects %d rows, %d live rows hold s", len(gotS), len(withS))})
	}
	return vs
}

func (s c11Spec) ops(w *model.World) (out []opx) {
	full := []model.Write{{Col: "v", V: model.Val{N: 7}}, {Col: "s", V: model.Val{S: "a"}}}
	merged := []model.Write{{Col: "v", V: model.Val{N: 5}, Merge: true}, {Col: "s", V: model.Val{S: "x"}, Merge: true}}
	out = append(out,
		txnOp(w, []model.Act{{Op: "insert", Probe: true, W: full}}, false),
		txnOp(w, []model.Act{{Op: "insert", Probe: true}}, false),
		txnOp(w, []model.Act{{Op: "insert", Probe: true, W: merged}}, false),
		txnOp(w, []model.Act{{Op: "insert", Probe: true, W: full}, {Op: "insert", Probe: true, W: merged}}, false),
	)
	offs := w.M.Offsets()
	// deletes: first, second and last live row (bulk filler included: holes matter here)
	seen := map[uint32]bool{}
	for _, i := range []int{0, 1, len(offs) - 1} {
		if i >= 0 && i < len(offs) && !seen[offs[i]] {
			seen[offs[i]] = true
			out = append(out, txnOp(w, []model.Act{{Op: "del", Off: offs[i]}}, false))
		}
	}
	// write and delete of one row in one transaction: the row is gone, and so is what was written
	if len(offs) > 0 {
		o := txnOp(w, []model.Act{{Op: "put", Off: offs[0], W: []model.Write{{Col: "v", V: model.Val{N: 9}}, {Col: "s", V: model.Val{S: "w"}}}}, {Op: "del", Off: offs[0]}}, false)
		o.tag = "write and delete of one row in one transaction"
		out = append(out, o)
	}
	// delete then insert in one transaction
	if len(offs) > 0 {
		out = append(out, txnOp(w, []model.Act{{Op: "del", Off: offs[0]}, {Op: "insert", Probe: true, W: merged}}, false))
	}
	// deletes in two blocks and an insert in one transaction (row markers of one block
	// in two sections of the buffer, the later one holding no delete)
	if n := len(offs); n >= 2 && offs[0]>>14 != offs[n-1]>>14 {
		out = append(out, txnOp(w, []model.Act{{Op: "del", Off: offs[0]}, {Op: "del", Off: offs[n-1]}, {Op: "insert", Probe: true, W: full}}, false))
	}
	out = append(out, txnOp(w, []model.Act{{Op: "bulk", N: 64, W: full}}, false))
	if len(offs) >= 2 {
		var acts []model.Act
		for i := 0; i < len(offs) && len(acts) < 40; i += 2 {
			acts = append(acts, model.Act{Op: "del", Off: offs[i]})
		}
		o := txnOp(w, acts, false)
		o.label = fmt.Sprintf("txn[del every 2nd row x%d]", len(acts))
		out = append(out, o)
	}
	if s.probe && len(offs) > 0 {
		// "deleted offsets become available again": policy-independent bounded form
		max := offs[len(offs)-1]
		var holes []uint32
		for o := uint32(0); o < max; o++ {
			if _, live := w.M.Live[o]; !live {
				holes = append(holes, o)
			}
		}
		if len(holes) > 0 && len(holes) <= 40 {
			n := 64 * (len(holes) + 2)
			out = append(out, opx{label: fmt.Sprintf("probe-reuse(%d holes, %d inserts)", len(holes), n), run: func() []eng.Violation {
				res := w.Txn([]model.Act{{Op: "bulk", N: n}}, false)
				vs := res.Viol
				for _, h := range holes {
					if _, live := w.M.Live[h]; !live {
						vs = append(vs, eng.Violation{Assert: "reuse/available", Witness: "freed offset is not handed out again",
							Detail: fmt.Sprintf("offset %d was free below the high-water mark %d and is still unused after %d inserts", h, max, n)})
						break
					}
				}
				return vs
			}})
		}
	}
	return out
}

func c11SeqUnits(tier string) (units []eng.Unit) {
	var specs []c11Spec
	if tier == "quick" {
		for _, cp := range []int{1, 64, 1024, 20000} {
			specs = append(specs, c11Spec{preset: "empty", cap: cp, depth: 4})
		}
		specs = append(specs, c11Spec{preset: "word-edge", cap: 1024, depth: 4}, c11Spec{preset: "block-edge", cap: 1024, depth: 3},
			c11Spec{preset: "sparse-3", cap: 1024, depth: 3}, c11Spec{preset: "dense-2+1", cap: 1024, depth: 4})
	} else {
		for _, cp := range []int{1, 64, 1024, 20000} {
			specs = append(specs, c11Spec{preset: "empty", cap: cp, depth: 5, probe: true}, c11Spec{preset: "word-edge", cap: cp, depth: 4, probe: true})
		}
		specs = append(specs, c11Spec{preset: "empty", cap: 1024, depth: 6, probe: true}, c11Spec{preset: "block-edge", cap: 1024, depth: 4, probe: true},
			c11Spec{preset: "sparse-3", cap: 1024, depth: 4, probe: true}, c11Spec{preset: "dense-2+1", cap: 1024, depth: 5, probe: true})
	}
	for _, s := range specs {
		s := s
		split := 1
		if s.depth >= 5 {
			split = 2
		}
		units = append(units, &eng.SeqSpec{UnitName: s.name(), Prop: "C11", Depth: s.depth, Split: split, New: s.newState})
	}
	return units
}

func init() {
	eng.Register(&eng.Check{
		Prop:  "C11",
		Level: "model_checking",
		Rule: "SEQ: every history up to depth d over {insert with values, empty insert, merge-on-insert, two inserts in one transaction, delete first/second/last row, " +
			"delete+insert in one transaction, bulk insert of 64, delete every second row, (thorough) reuse probe}; oracle: returned offset not live and not handed out twice, " +
			"Count = live rows, every reader/Sum/value filter of a fresh row shows only what its insert stored. SCHED: every interleaving (preemption-bounded) of " +
			"concurrent inserters and a deleter; oracle: offsets pairwise distinct, values intact, Count = live rows at quiescence. states = distinct model states / outcomes",
		Assumptions: []string{"which free offset an insert receives is not judged; 'available again' is judged only in the bounded, policy-independent form of DESIGN.md §8 C11 (thorough tier)"},
		Budget:      budget(170*time.Second, 28*time.Minute),
		Bounds: func(tier string) map[string]any {
			if tier == "quick" {
				return map[string]any{"seq_depth": 4, "capacities": []int{1, 64, 1024, 20000}, "presets": []string{"empty", "word-edge", "block-edge(d3)", "sparse-3(d3)"}, "preemption_bound": 2}
			}
			return map[string]any{"seq_depth": "6 (empty), 5, 4", "capacities": []int{1, 64, 1024, 20000}, "preemption_bound": 3}
		},
		Units: func(tier string) []eng.Unit {
			return append(c11SeqUnits(tier), c11SchedUnits(tier)...)
		},
	})
}

// replaced by sched_c11.go once the SCHED scenarios exist
var c11SchedUnits = func(tier string) []eng.Unit { return nil }
