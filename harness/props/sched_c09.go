package props

import (
	"fmt"
	"io"
	"time"

	"colverif/eng"
	"colverif/model"
	"colverif/vsched"

	"github.com/kelindar/column"
)

// ---------------------------------------------------------------------------
// C09 — concurrent merges are never lost. SCHED: 2-3 threads merging into the same
// rows (one and two blocks), all interleavings up to the preemption bound.
// ---------------------------------------------------------------------------

type c09Write struct {
	off   uint32
	v     model.Val
	merge bool
}

// c09Scenario: column "a" of the given kind; each thread has a list of writes.
func c09Scenario(kind string, threads [][]c09Write, withIndex bool) func() *eng.SchedInstance {
	return c09ScenarioX(kind, threads, withIndex, "")
}

// c09ScenarioX adds one thread that issues no write: "createindex" (index maintenance
// on the merged column), "snapshot" or "reader" (filtered iteration over the column).
func c09ScenarioX(kind string, threads [][]c09Write, withIndex bool, extra string) func() *eng.SchedInstance {
	return func() *eng.SchedInstance {
		k := model.Kinds[kind]
		init := k.Values[0]
		cfg := model.Config{Cols: []model.ColDef{{Name: "a", Kind: kind}}}
		sw := newSWorld(cfg, []model.Write{{Col: "a", V: init}}, "a")
		if withIndex {
			// index: value differs from the initial one
			sw.w.C.CreateIndex("changed", "a", func(r columnReader) bool { return !readerEquals(k, r, init) })
		}
		for i, ws := range threads {
			var acts []model.Act
			for _, x := range ws {
				acts = append(acts, model.Act{Op: "put", Off: x.off, W: []model.Write{{Col: "a", V: x.v, Merge: x.merge}}})
			}
			sw.add(fmt.Sprintf("W%d", i+1), acts, false)
		}
		bodies, names := sw.bodies(), sw.names()
		var extraErr error
		switch extra {
		case "createindex":
			names = append(names, "createIndex")
			bodies = append(bodies, func() {
				extraErr = sw.w.C.CreateIndex("late", "a", func(r columnReader) bool { return !readerEquals(k, r, init) })
			})
		case "snapshot":
			names = append(names, "snapshot")
			bodies = append(bodies, func() { extraErr = sw.w.C.Snapshot(io.Discard) })
		case "reader":
			names = append(names, "reader")
			bodies = append(bodies, func() {
				sw.w.C.Query(func(txn *column.Txn) error {
					txn.With("a").Range(func(uint32) { k.ReadTxn(txn, "a") })
					k.Sum(txn, "a")
					return nil
				})
			})
		}
		return &eng.SchedInstance{
			Threads: bodies,
			Close:   sw.w.Close,
			Check: func(res *vsched.Result) (string, []eng.Violation) {
				vs := threadPanics(res, names)
				if extraErr != nil {
					vs = append(vs, eng.Violation{Assert: "extra/error", Witness: names[len(names)-1] + " failed beside the merging transactions", Detail: extraErr.Error()})
				}
				outcome := ""
				for _, off := range []uint32{R0, R1} {
					// expected: fold the writes in the apply order the trigger witnessed
					cur := init
					seen := map[int]int{}
					var chainBad string
					for _, e := range sw.applied["a"] {
						if e.off != off || e.thread < 0 {
							continue // (thread < 0: set-up, outside the exploration)
						}
						if e.thread >= len(threads) {
							// a store by the thread that issued no write (index maintenance that
							// re-writes what it read) is harmless only if it leaves the value as it is
							if e.val != cur && chainBad == "" {
								chainBad = fmt.Sprintf("thread %s, which issued no write, replaced %s by %s in row %d", names[e.thread], k.Show(cur), k.Show(e.val), off)
							}
							continue
						}
						seen[e.thread]++
						var mine *c09Write
						n := 0
						for j := range threads[e.thread] {
							if threads[e.thread][j].off == off {
								n++
								if n == seen[e.thread] {
									mine = &threads[e.thread][j]
								}
							}
						}
						if mine == nil {
							chainBad = fmt.Sprintf("thread %s applied more writes to row %d than it issued", sw.threads[e.thread].name, off)
							break
						}
						if mine.merge {
							cur = k.MergeFn(cur, mine.v)
						} else {
							cur = mine.v
						}
						if e.val != cur && chainBad == "" {
							chainBad = fmt.Sprintf("after %s applied to row %d the stored value was reported as %s, folding gives %s", sw.threads[e.thread].name, off, k.Show(e.val), k.Show(cur))
						}
					}
					for ti, ws := range threads {
						want := 0
						for _, x := range ws {
							if x.off == off {
								want++
							}
						}
						if seen[ti] != want && chainBad == "" {
							chainBad = fmt.Sprintf("thread %s issued %d writes to row %d, %d were applied", sw.threads[ti].name, want, off, seen[ti])
						}
					}
					got, ok := sw.read(off, "a")
					outcome += fmt.Sprintf("row%d[%s]=%s ", off, sw.orderOf("a", off), k.Show(got))
					if chainBad != "" {
						vs = append(vs, eng.Violation{Assert: "merge/apply-chain", Witness: "the chain of applied values is not the fold of the committed writes", Detail: chainBad})
						continue
					}
					if !ok || got != cur {
						vs = append(vs, eng.Violation{Assert: "merge/final", Witness: "final value differs from the initial value combined with every committed delta once",
							Detail: fmt.Sprintf("row %d: final %s (present=%v), folding %s over initial %s gives %s", off, k.Show(got), ok, sw.orderOf("a", off), k.Show(init), k.Show(cur))})
					}
					if withIndex {
						var sel bool
						sw.w.C.QueryAt(off, func(r columnRow) error { sel = r.Bool("changed"); return nil })
						if sel != (cur != init) {
							vs = append(vs, eng.Violation{Assert: "merge/index", Witness: "index on the merged column disagrees with the final value",
								Detail: fmt.Sprintf("row %d: index says %v, final value %s, initial %s", off, sel, k.Show(cur), k.Show(init))})
						}
					}
				}
				return outcome, vs
			},
		}
	}
}

func init() {
	N := func(n int64) model.Val { return model.Val{N: uint64(n)} }
	S := func(s string) model.Val { return model.Val{S: s} }
	F := func(bits uint64) model.Val { return model.Val{N: bits} }
	m := func(off uint32, v model.Val) c09Write { return c09Write{off, v, true} }
	p := func(off uint32, v model.Val) c09Write { return c09Write{off, v, false} }
	eng.Register(&eng.Check{
		Prop:  "C09",
		Level: "model_checking", NodeStates: true,
		Rule: "SCHED: for each scenario (2-3 transactions merging into the same rows in one and two blocks; int, int16 wrap-around, uint64, float64 additive merges; order-sensitive string " +
			"concatenation and record merges; mixed with an overwriting writer, an index on the merged column, and a thread creating an index on it / taking a snapshot / iterating) every interleaving at every lock/atomic operation of the real code up to " +
			"the preemption bound; oracle: a trigger witnesses the per-block apply order; the chain of stored values must be the fold of the committed writes in that order, every write " +
			"applied exactly once, the final value equal to the fold, the index consistent. states = decision nodes of the schedule tree; distinct = distinct (apply order, final values) outcomes",
		Assumptions: []string{"sequentially consistent interleavings only; data races are the subject of C18", "each thread is one transaction"},
		Budget:      budget(170*time.Second, 28*time.Minute),
		Bounds: func(tier string) map[string]any {
			if tier == "quick" {
				return map[string]any{"preemption_bound": "4 (two threads), 3 (three threads)", "threads": "2-3"}
			}
			return map[string]any{"preemption_bound": "6 (two threads), 4 (three threads)", "threads": "2-3"}
		},
		Units: func(tier string) []eng.Unit {
			b2, b3 := 4, 3
			if tier != "quick" {
				b2, b3 = 6, 4
			}
			return schedUnits("C09", []scenario{
				{"int/2-mergers-one-row", b2, c09Scenario("int", [][]c09Write{{m(R0, N(1))}, {m(R0, N(2))}}, false)},
				{"int/3-mergers-two-blocks", b3, c09Scenario("int", [][]c09Write{{m(R0, N(1)), m(R1, N(1))}, {m(R0, N(2))}, {m(R1, N(4)), m(R0, N(8))}}, false)},
				{"int16/wrap-around", b2, c09Scenario("int16", [][]c09Write{{m(R0, N(32767))}, {m(R0, N(32767)), m(R1, N(-1))}}, false)},
				{"uint64/2-mergers+index", b2, c09Scenario("uint64", [][]c09Write{{m(R0, model.Val{N: ^uint64(0)})}, {m(R0, N(1))}}, true)},
				{"float64/2-mergers", b2, c09Scenario("float64", [][]c09Write{{m(R0, F(0x3fd0000000000000))}, {m(R0, F(0x7ff0000000000000)), m(R1, F(0x3ff0000000000000))}}, false)},
				{"string/order-sensitive-concat", b2, c09Scenario("string", [][]c09Write{{m(R0, S("x"))}, {m(R0, S("yy")), m(R1, S("z"))}}, false)},
				{"record/order-sensitive-merge", b2, c09Scenario("record", [][]c09Write{{m(R0, S("x")), m(R1, S("q"))}, {m(R0, S("y"))}}, false)},
				{"record/mergers-in-different-blocks", b2, c09Scenario("record", [][]c09Write{{m(R0, S("x"))}, {m(R1, S("y"))}}, false)},
				{"string/mergers-in-different-blocks", b2, c09Scenario("string", [][]c09Write{{m(R0, S("x"))}, {m(R1, S("yy"))}}, false)},
				{"int/merger+overwriter+merger", b3, c09Scenario("int", [][]c09Write{{m(R0, N(1))}, {p(R0, N(100))}, {m(R0, N(2))}}, true)},
				{"int/double-merge-in-one-txn", b2, c09Scenario("int", [][]c09Write{{m(R0, N(1)), m(R0, N(1))}, {m(R0, N(10))}}, false)},
				// merging transactions beside index maintenance, a snapshot, a reader
				{"int/2-mergers||createIndex", b3, c09ScenarioX("int", [][]c09Write{{m(R0, N(1)), m(R1, N(1))}, {m(R1, N(2))}}, false, "createindex")},
				{"string/merger||createIndex", b2, c09ScenarioX("string", [][]c09Write{{m(R0, S("x")), m(R1, S("yy"))}}, false, "createindex")},
				{"int/2-mergers||snapshot", b3, c09ScenarioX("int", [][]c09Write{{m(R0, N(1)), m(R1, N(1))}, {m(R1, N(2))}}, false, "snapshot")},
				{"int16/2-mergers||reader", b3, c09ScenarioX("int16", [][]c09Write{{m(R0, N(32767))}, {m(R0, N(32767)), m(R1, N(-1))}}, true, "reader")},
			})
		},
	})
}
