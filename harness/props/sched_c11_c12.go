package props

import (
	"fmt"
	"sort"
	"strings"

	"colverif/eng"
	"colverif/model"
	"colverif/vsched"

	"github.com/kelindar/column"
)

// ---------------------------------------------------------------------------
// C11 SCHED — concurrent inserters beside a deleter: offsets never collide, values
// stay intact, Count equals the live rows at quiescence.
// ---------------------------------------------------------------------------

type c11Sched struct {
	name    string
	full    bool // block 0 is full (16384 rows) and two rows live in block 1: inserts re-use offsets of block 1
	threads [][]model.Act
	fails   []bool
}

func c11SchedScenarios() []c11Sched {
	ins := func(v uint64, failCb bool) model.Act {
		return model.Act{Op: "insert", W: []model.Write{{Col: "v", V: model.Val{N: v}}, {Col: "s", V: model.Val{S: fmt.Sprintf("row%d", v)}}}, FailCb: failCb}
	}
	return []c11Sched{
		{name: "insert||insert||delete", threads: [][]model.Act{{ins(11, false)}, {ins(12, false)}, {{Op: "del", Off: 0}}}},
		{name: "failing-insert||insert||insert", threads: [][]model.Act{{ins(11, true)}, {ins(12, false)}, {ins(13, false)}}},
		{name: "rollback-with-insert||insert", threads: [][]model.Act{{ins(11, false), ins(14, false)}, {ins(12, false), ins(13, false)}}, fails: []bool{true, false}},
		// an update racing with the delete of its row, then re-use of the offset by an
		// insert that does not store that column
		{name: "update-row0||delete-row0||insert-empty", threads: [][]model.Act{
			{{Op: "put", Off: 0, W: []model.Write{{Col: "v", V: model.Val{N: 99}}}}},
			{{Op: "del", Off: 0}},
			{{Op: "insert", W: []model.Write{{Col: "s", V: model.Val{S: "new"}}}}}}},
		// a transaction spanning two blocks (update in block 0, delete of the last row in
		// block 1) beside inserts that re-use the freed offset
		{name: "two-block-update+delete||insert", full: true, threads: [][]model.Act{
			{{Op: "put", Off: 0, W: []model.Write{{Col: "v", V: model.Val{N: 50}}}}, {Op: "del", Off: 16385}},
			{ins(12, false)}}},
		// the insert's callback reads its new row before storing anything: the previous
		// occupant's values must be gone by the time the offset is handed out
		{name: "delete-row0||insert-reading-its-new-row", threads: [][]model.Act{
			{{Op: "del", Off: 0}},
			{{Op: "insert", Probe: true, W: []model.Write{{Col: "s", V: model.Val{S: "new"}}}}}}},
		{name: "insert-merge||delete+insert", threads: [][]model.Act{
			{{Op: "insert", W: []model.Write{{Col: "v", V: model.Val{N: 5}, Merge: true}}}},
			{{Op: "del", Off: 0}, ins(12, false)}}},
	}
}

func (sc c11Sched) instance() *eng.SchedInstance {
	sw := newSWorld(model.Config{Cols: []model.ColDef{{Name: "v", Kind: "int"}, {Name: "s", Kind: "string"}}}, nil)
	w := sw.w
	// rows 0 and 1 seeded through the API, so that a delete frees a low offset
	w.Sched = false
	if sc.full {
		// block 0 is filled directly (16384 filler rows, not tracked by the model: the
		// oracle counts them); the two rows of block 1 are modelled
		w.C.Query(func(txn *column.Txn) error {
			for i := 0; i < 16384; i++ {
				txn.Insert(func(r column.Row) error { r.SetInt("v", 1); return nil })
			}
			return nil
		})
		w.Txn([]model.Act{{Op: "insert", W: []model.Write{{Col: "v", V: model.Val{N: 1}}}}, {Op: "insert", W: []model.Write{{Col: "v", V: model.Val{N: 1}}}}}, false)
	} else {
		w.Txn([]model.Act{{Op: "insert", W: []model.Write{{Col: "v", V: model.Val{N: 1}}, {Col: "s", V: model.Val{S: "old"}}}},
			{Op: "insert", W: []model.Write{{Col: "v", V: model.Val{N: 2}}, {Col: "s", V: model.Val{S: "old"}}}}}, false)
	}
	w.Sched = true
	w.Commits, w.Emitters = nil, nil
	for i, acts := range sc.threads {
		fail := false
		if i < len(sc.fails) {
			fail = sc.fails[i]
		}
		sw.add(fmt.Sprintf("T%d", i+1), acts, fail)
	}
	return &eng.SchedInstance{
		Threads: sw.bodies(),
		Close:   w.Close,
		Check: func(res *vsched.Result) (string, []eng.Violation) {
			vs := threadPanics(res, sw.names())
			// expected final rows: seeded rows minus committed deletes plus committed inserts
			m := w.M.Clone()
			var all []uint32
			order := append([]*sthread{}, sw.threads...)
			// apply in commit order (order in which the first commit of each thread was emitted)
			rank := map[int]int{}
			for i, e := range w.Emitters {
				if _, ok := rank[e]; !ok {
					rank[e] = i
				}
			}
			sort.SliceStable(order, func(i, j int) bool { return rank[threadIndex(sw, order[i])] < rank[threadIndex(sw, order[j])] })
			for _, t := range order {
				if !t.done {
					continue
				}
				for _, v := range t.res.Viol {
					vs = append(vs, v)
				}
				if t.err != nil {
					continue
				}
				all = append(all, t.res.Inserted...)
				w.ApplyPendingTo(m, &t.p, nil)
			}
			seen := map[uint32]bool{}
			for _, o := range all {
				if seen[o] {
					vs = append(vs, eng.Violation{Assert: "insert/offset-free", Witness: "two concurrent committed inserts received the same offset",
						Detail: fmt.Sprintf("offsets handed to committed inserts: %v", all)})
				}
				seen[o] = true
			}
			cols := w.M.Cols
			kinds := func(c string) *model.KindDesc { return w.M.Col(c) }
			want := renderBlock(cols, modelRows(m), 0, kinds)
			got := renderBlock(cols, implRows(w), 0, kinds)
			if sc.full {
				// block 0 is 16384 identical filler rows: compare block 1, and block 0 by count
				ir := implRows(w)
				n0 := 0
				for off := range ir {
					if off>>14 == 0 {
						n0++
					}
				}
				want = fmt.Sprintf("block0:%d rows; ", 16384) + renderBlock(cols, modelRows(m), 1, kinds)
				got = fmt.Sprintf("block0:%d rows; ", n0) + renderBlock(cols, ir, 1, kinds)
			}
			if got != want && len(vs) == 0 {
				wit := "rows after concurrent inserts/deletes differ from what the committed transactions stored"
				// known pattern: same rows, but a freshly inserted row on a re-used offset
				// shows an extra value that a concurrent update of the PREVIOUS occupant
				// committed after that occupant's delete
				impl, mod := implRows(w), modelRows(m)
				onlyExtraOnFresh := len(impl) == len(mod)
				for off, row := range impl {
					mrow, ok := mod[off]
					if !ok {
						onlyExtraOnFresh = false
						break
					}
					for c, v := range mrow {
						if row[c] != v {
							onlyExtraOnFresh = false
						}
					}
					if len(row) > len(mrow) && !seen[off] {
						onlyExtraOnFresh = false
					}
				}
				if onlyExtraOnFresh {
					wit = "a re-used offset exposes a value that an update of the previous occupant committed after its delete"
				}
				vs = append(vs, eng.Violation{Assert: "insert/values-intact", Witness: wit,
					Detail: fmt.Sprintf("rows {%s}, committed transactions give {%s}", got, want)})
			}
			wantCount := len(m.Live)
			if sc.full {
				wantCount += 16384
			}
			if c := w.C.Count(); c != wantCount {
				vs = append(vs, eng.Violation{Assert: "count", Witness: "Count differs from the number of live rows at quiescence",
					Detail: fmt.Sprintf("Count()=%d, %d live rows", c, wantCount)})
			}
			return got, vs
		},
	}
}

func threadIndex(sw *sworld, t *sthread) int {
	for i, x := range sw.threads {
		if x == t {
			return i
		}
	}
	return -1
}

func init() {
	c11SchedUnits = func(tier string) []eng.Unit {
		var scs []scenario
		for _, sc := range c11SchedScenarios() {
			sc := sc
			b := 2
			if len(sc.threads) == 2 && !sc.full {
				b = 3
			}
			if tier != "quick" {
				b++
			}
			scs = append(scs, scenario{sc.name, b, sc.instance})
		}
		return schedUnits("C11", scs)
	}
	c12SchedUnits = func(tier string) []eng.Unit {
		var scs []scenario
		for _, sc := range c12SchedScenarios() {
			sc := sc
			b := 2
			if len(sc.threads) == 2 {
				b = 3
			}
			if tier != "quick" {
				b++
			}
			scs = append(scs, scenario{sc.name, b, sc.instance})
		}
		return schedUnits("C12", scs)
	}
}

// ---------------------------------------------------------------------------
// C12 SCHED — concurrent key operations on one key: the call/return history must be
// linearizable with respect to a map, and the final state must hold at most one
// live row per key, reachable by lookup.
// ---------------------------------------------------------------------------

type keyCall struct {
	op  string // insert, upsert, delete, query
	key string
}

type keyEvent struct {
	thread     int
	call       keyCall
	failed     bool
	start, end int
}

type c12Sched struct {
	name    string
	seed    []string // keys present initially
	threads [][]keyCall
}

func c12SchedScenarios() []c12Sched {
	return []c12Sched{
		{name: "insertkey-a||insertkey-a", threads: [][]keyCall{{{"insert", "a"}}, {{"insert", "a"}}}},
		{name: "upsertkey-a||upsertkey-a", threads: [][]keyCall{{{"upsert", "a"}}, {{"upsert", "a"}}}},
		{name: "upsertkey-a||deletekey-a", seed: []string{"a"}, threads: [][]keyCall{{{"upsert", "a"}}, {{"delete", "a"}}}},
		{name: "insertkey-a||deletekey-a;insertkey-a", seed: []string{"a"}, threads: [][]keyCall{{{"insert", "a"}}, {{"delete", "a"}, {"insert", "a"}}}},
		{name: "deletekey-a||deletekey-a||querykey-a", seed: []string{"a"}, threads: [][]keyCall{{{"delete", "a"}}, {{"delete", "a"}}, {{"query", "a"}}}},
		{name: "insertkey-a||insertkey-b||querykey-a", threads: [][]keyCall{{{"insert", "a"}}, {{"insert", "b"}}, {{"query", "a"}}}},
		// an InsertKey whose callback fails (it rolls back) beside two inserts of OTHER keys
		{name: "failing-insertkey-a||insertkey-b||insertkey-c", threads: [][]keyCall{{{"insertfail", "a"}}, {{"insert", "b"}}, {{"insert", "c"}}}},
	}
}

func (sc c12Sched) instance() *eng.SchedInstance {
	sw := newSWorld(model.Config{Cols: []model.ColDef{{Name: "key", Kind: "key"}, {Name: "v", Kind: "int"}}}, nil)
	w := sw.w
	for _, k := range sc.seed {
		w.C.InsertKey(k, func(r column.Row) error { r.SetInt("v", 1); return nil })
	}
	var events []keyEvent
	var bodies []func()
	var names []string
	for ti, calls := range sc.threads {
		ti, calls := ti, calls
		names = append(names, fmt.Sprintf("T%d", ti+1))
		bodies = append(bodies, func() {
			for _, c := range calls {
				e := keyEvent{thread: ti, call: c, start: vsched.Steps()}
				var err error
				switch c.op {
				case "insert":
					err = w.C.InsertKey(c.key, func(r column.Row) error { r.SetInt("v", 10+ti); return nil })
				case "insertfail":
					err = w.C.InsertKey(c.key, func(r column.Row) error { r.SetInt("v", 66); return fmt.Errorf("verif: callback gives up") })
				case "upsert":
					err = w.C.UpsertKey(c.key, func(r column.Row) error { r.MergeInt("v", 1); return nil })
				case "delete":
					err = w.C.DeleteKey(c.key)
				case "query":
					err = w.C.QueryKey(c.key, func(r column.Row) error { return nil })
				}
				e.failed = err != nil
				e.end = vsched.Steps()
				events = append(events, e)
			}
		})
	}
	return &eng.SchedInstance{
		Threads: bodies,
		Close:   w.Close,
		Check: func(res *vsched.Result) (string, []eng.Violation) {
			vs := threadPanics(res, names)
			// final state through the public API
			rowsOf := map[string][]uint32{}
			w.C.Query(func(txn *column.Txn) error {
				return txn.Range(func(idx uint32) {
					if k, ok := txn.Key().Get(); ok {
						rowsOf[k] = append(rowsOf[k], idx)
					} else {
						rowsOf["<none>"] = append(rowsOf["<none>"], idx)
					}
				})
			})
			final := map[string]bool{}
			for _, k := range []string{"a", "b", "c"} {
				if len(rowsOf[k]) > 0 {
					final[k] = true
				}
			}
			var hist []string
			for _, e := range events {
				hist = append(hist, fmt.Sprintf("T%d:%s(%s)=%v", e.thread+1, e.call.op, e.call.key, map[bool]string{false: "ok", true: "err"}[e.failed]))
			}
			outcome := fmt.Sprintf("%s final=%v", strings.Join(hist, " "), rowsOf)
			tag := " [" + sc.name + "]"
			for k, rows := range rowsOf {
				if k != "<none>" && len(rows) > 1 {
					vs = append(vs, eng.Violation{Assert: "key/unique", Witness: "two live rows hold one key" + tag,
						Detail: fmt.Sprintf("key %q is held by live rows %v; history: %s", k, rows, strings.Join(hist, " "))})
				}
			}
			if len(rowsOf["<none>"]) > 0 {
				vs = append(vs, eng.Violation{Assert: "key/keyless-row", Witness: "a live row without a key" + tag,
					Detail: fmt.Sprintf("rows %v are live and hold no key; history: %s", rowsOf["<none>"], strings.Join(hist, " "))})
			}
			for _, k := range []string{"a", "b", "c"} {
				var got uint32
				var gotKey string
				err := w.C.QueryKey(k, func(r column.Row) error { got = r.Index(); gotKey, _ = r.Key(); return nil })
				if (err == nil) != final[k] {
					vs = append(vs, eng.Violation{Assert: "key/lookup", Witness: "lookup disagrees with the live rows" + tag,
						Detail: fmt.Sprintf("QueryKey(%q) err=%v, live rows holding it: %v; history: %s", k, err, rowsOf[k], strings.Join(hist, " "))})
				} else if err == nil && gotKey != k {
					vs = append(vs, eng.Violation{Assert: "key/lookup", Witness: "lookup reaches a row whose key it is not" + tag,
						Detail: fmt.Sprintf("QueryKey(%q) reached row %d with key %q", k, got, gotKey)})
				}
			}
			if len(vs) == 0 && !linearizable(events, sc.seed, final) {
				vs = append(vs, eng.Violation{Assert: "key/linearizable", Witness: "call/return history is not linearizable with respect to a map" + tag,
					Detail: fmt.Sprintf("history (in return order): %s; final keys %v", strings.Join(hist, " "), final)})
			}
			return outcome, vs
		},
	}
}

// linearizable: brute force over all orders consistent with real time.
func linearizable(events []keyEvent, seed []string, final map[string]bool) bool {
	n := len(events)
	used := make([]bool, n)
	state := map[string]bool{}
	for _, k := range seed {
		state[k] = true
	}
	var rec func(done int) bool
	rec = func(done int) bool {
		if done == n {
			for _, k := range []string{"a", "b", "c"} {
				if state[k] != final[k] {
					return false
				}
			}
			return true
		}
		for i := 0; i < n; i++ {
			if used[i] {
				continue
			}
			// real-time order: every call that returned before i started must be done
			ok := true
			for j := 0; j < n; j++ {
				if !used[j] && j != i && events[j].end < events[i].start {
					ok = false
				}
			}
			if !ok {
				continue
			}
			e := events[i]
			had := state[e.call.key]
			var fail bool
			switch e.call.op {
			case "insert":
				fail = had
				if !had {
					state[e.call.key] = true
				}
			case "insertfail":
				fail = true // fails either way: the key exists, or the callback gives up
			case "upsert":
				state[e.call.key] = true
			case "delete":
				fail = !had
				delete(state, e.call.key)
			case "query":
				fail = !had
			}
			if fail == e.failed {
				used[i] = true
				if rec(done + 1) {
					return true
				}
				used[i] = false
			}
			// undo
			if had {
				state[e.call.key] = true
			} else {
				delete(state, e.call.key)
			}
		}
		return false
	}
	return rec(0)
}
