package props

import (
	"fmt"
	"math"
	"math/big"
	"sort"
	"strings"
	"time"

	"colverif/eng"
	"colverif/model"

	"github.com/kelindar/column"
)

// ---------------------------------------------------------------------------
// C04 — filters, iteration and aggregates follow set semantics over live rows.
// SEQ over data layouts (histories up to depth d1 on each preset); at every node
// EVERY filter chain up to length L is evaluated on the real transaction and on the
// model, followed by Count, Range and the four aggregates.
// ---------------------------------------------------------------------------

type c04Spec struct {
	kind   string
	preset string
	d1     int
	L      int
}

func (s c04Spec) name() string { return fmt.Sprintf("%s/%s/d%d/L%d", s.kind, s.preset, s.d1, s.L) }

// a filter step: how to apply it to the real transaction and to the model set
type c04Filter struct {
	name  string
	apply func(t *column.Txn)
	eval  func(m *c04Model, sel map[uint32]bool, first bool) (out map[uint32]bool, judged bool)
}

type c04Model struct {
	w    *model.World
	live map[uint32]bool
	sets map[string]map[uint32]bool // name -> bitmap of that column/index (nil entry = missing name)
	k    *model.KindDesc
}

func (s c04Spec) newState() eng.SeqState {
	w := model.NewWorld(model.Config{Cols: []model.ColDef{{Name: "n", Kind: s.kind}, {Name: "s", Kind: "string"}, {Name: "b", Kind: "bool"}, {Name: "e", Kind: "enum"}}})
	k := model.Kinds[s.kind]
	// index A on n (as integer > 1), index B on s
	indexes := func() {
		w.C.CreateIndex("A", "n", func(r column.Reader) bool { return readerInt(k, r) > 1 })
		w.M.Indexes = append(w.M.Indexes, &model.IndexDef{Name: "A", Col: "n", Pred: func(v model.Val) bool { return k.AsInt(v) > 1 }})
		w.CreateIndex("s=a")
	}
	if strings.HasPrefix(s.preset, "aligned-3") {
		// the same in-block position in three blocks, with different memberships: row 5
		// is in every named set, row 16384+5 only holds a string other than "a", row
		// 32768+5 only a number failing the index rule. "-late": the indexes are created
		// after the rows (back-filled; their bitmaps end where their last member is)
		big := k.Values[0]
		small := k.Values[0]
		for _, v := range k.Values {
			if k.AsInt(v) > 1 {
				big = v
			} else {
				small = v
			}
		}
		if s.preset == "aligned-3" {
			indexes()
		}
		w.SeedReplay(map[uint32][]model.Write{
			5:         {{Col: "n", V: big}, {Col: "s", V: model.Val{S: "a"}}, {Col: "b", V: model.Val{N: 1}}, {Col: "e", V: model.Val{S: "x"}}},
			16384 + 5: {{Col: "s", V: model.Val{S: "b"}}},
			32768 + 5: {{Col: "n", V: small}},
		})
		if s.preset != "aligned-3" {
			indexes()
		}
		return &worldState{w: w, ops: s.ops, check: s.check}
	}
	indexes()
	applyPreset(w, s.preset, []model.Write{{Col: "n", V: k.Values[0]}, {Col: "s", V: model.Val{S: "a"}}, {Col: "e", V: model.Val{S: "x"}}})
	return &worldState{w: w, ops: s.ops, check: s.check}
}

// readerInt reads the value an index rule sees, as int64, for any numeric kind.
func readerInt(k *model.KindDesc, r column.Reader) int64 {
	if k.Float {
		return int64(r.Float())
	}
	if k.Signed {
		switch k.Bits {
		case 16:
			return int64(int16(r.Uint()))
		case 32:
			return int64(int32(r.Uint()))
		}
		return int64(r.Int())
	}
	return int64(r.Uint())
}

func (s c04Spec) ops(w *model.World) (out []opx) {
	k := model.Kinds[s.kind]
	v := k.Values
	out = append(out,
		txnOp(w, []model.Act{{Op: "insert", W: []model.Write{{Col: "n", V: v[0]}, {Col: "s", V: model.Val{S: "a"}}, {Col: "b", V: model.Val{N: 1}}, {Col: "e", V: model.Val{S: "x"}}}}}, false),
		txnOp(w, []model.Act{{Op: "insert", W: []model.Write{{Col: "n", V: v[1%len(v)]}, {Col: "s", V: model.Val{S: "b"}}, {Col: "e", V: model.Val{S: "y"}}}}}, false),
		txnOp(w, []model.Act{{Op: "insert", W: []model.Write{{Col: "s", V: model.Val{S: "a"}}}}}, false),
		txnOp(w, []model.Act{{Op: "insert"}}, false),
	)
	rows := firstRows(w, 1)
	for _, r := range rows {
		out = append(out, txnOp(w, []model.Act{{Op: "put", Off: r, W: []model.Write{{Col: "n", V: v[2%len(v)]}}}}, false))
		out = append(out, txnOp(w, []model.Act{{Op: "del", Off: r}}, false))
	}
	if hi, ok := lastRow(w); ok && (len(rows) == 0 || hi != rows[0]) {
		out = append(out, txnOp(w, []model.Act{{Op: "del", Off: hi}}, false))
		out = append(out, txnOp(w, []model.Act{{Op: "put", Off: hi, W: []model.Write{{Col: "n", V: v[len(v)-1]}, {Col: "b", V: model.Val{N: 1}}}}}, false))
	}
	return out
}

func setOf(offs []uint32) map[uint32]bool {
	m := make(map[uint32]bool, len(offs))
	for _, o := range offs {
		m[o] = true
	}
	return m
}

func inter(a, b map[uint32]bool) map[uint32]bool {
	out := map[uint32]bool{}
	for o := range a {
		if b[o] {
			out[o] = true
		}
	}
	return out
}

func minus(a, b map[uint32]bool) map[uint32]bool {
	out := map[uint32]bool{}
	for o := range a {
		if !b[o] {
			out[o] = true
		}
	}
	return out
}

func union(a, b map[uint32]bool) map[uint32]bool {
	out := map[uint32]bool{}
	for o := range a {
		out[o] = true
	}
	for o := range b {
		out[o] = true
	}
	return out
}

func sorted(a map[uint32]bool) []uint32 {
	out := make([]uint32, 0, len(a))
	for o := range a {
		out = append(out, o)
	}
	sort.Slice(out, func(i, j int) bool { return out[i] < out[j] })
	return out
}

func (s c04Spec) filters(k *model.KindDesc) []c04Filter {
	names := []string{"A", "s=a", "n", "b", "s", "zz"}
	var fs []c04Filter
	for _, n := range names {
		n := n
		fs = append(fs, c04Filter{name: "With(" + n + ")", apply: func(t *column.Txn) { t.With(n) },
			eval: func(m *c04Model, sel map[uint32]bool, first bool) (map[uint32]bool, bool) {
				if x, ok := m.sets[n]; ok {
					return inter(sel, x), true
				}
				return map[uint32]bool{}, true
			}})
		fs = append(fs, c04Filter{name: "Without(" + n + ")", apply: func(t *column.Txn) { t.Without(n) },
			eval: func(m *c04Model, sel map[uint32]bool, first bool) (map[uint32]bool, bool) {
				if x, ok := m.sets[n]; ok {
					return minus(sel, x), true
				}
				return sel, true
			}})
		fs = append(fs, c04Filter{name: "Union(" + n + ")", apply: func(t *column.Txn) { t.Union(n) },
			eval: func(m *c04Model, sel map[uint32]bool, first bool) (map[uint32]bool, bool) {
				x, ok := m.sets[n]
				if !ok {
					return sel, !first // a first Union naming only missing columns is not judged
				}
				if first {
					return inter(sel, x), true
				}
				return union(sel, x), true
			}})
	}
	for _, p := range [][]string{{"A", "s=a"}, {"A", "zz"}, {"n", "b"}, {"zz", "zz"}, {"A"}, {"b"}} {
		p := p
		fs = append(fs, c04Filter{name: "WithUnion(" + strings.Join(p, ",") + ")", apply: func(t *column.Txn) { t.WithUnion(p...) },
			eval: func(m *c04Model, sel map[uint32]bool, first bool) (map[uint32]bool, bool) {
				u := map[uint32]bool{}
				any := false
				for _, n := range p {
					if x, ok := m.sets[n]; ok {
						u = union(u, x)
						any = true
					}
				}
				if !any && first {
					return sel, false
				}
				return inter(sel, u), true
			}})
	}
	nval := func(m *c04Model, sel map[uint32]bool, pred func(model.Val) bool) map[uint32]bool {
		out := map[uint32]bool{}
		for o := range sel {
			if r := m.w.M.Live[o]; r != nil {
				if v, ok := r.V["n"]; ok && pred(v) {
					out[o] = true
				}
			}
		}
		return out
	}
	empty := func(m *c04Model, sel map[uint32]bool, first bool) (map[uint32]bool, bool) {
		return map[uint32]bool{}, true
	}
	fs = append(fs,
		c04Filter{name: "WithValue(n,int>1)", apply: func(t *column.Txn) {
			t.WithValue("n", func(v interface{}) bool { x, ok := k.FromAny(v); return ok && k.AsInt(x) > 1 })
		}, eval: func(m *c04Model, sel map[uint32]bool, first bool) (map[uint32]bool, bool) {
			return nval(m, sel, func(v model.Val) bool { return k.AsInt(v) > 1 }), true
		}},
		c04Filter{name: "WithValue(n,always)", apply: func(t *column.Txn) { t.WithValue("n", func(v interface{}) bool { return true }) },
			eval: func(m *c04Model, sel map[uint32]bool, first bool) (map[uint32]bool, bool) {
				return nval(m, sel, func(model.Val) bool { return true }), true
			}},
		// over a bitmap index the value of a row is its membership; judged where the index
		// was created before the rows (an index created afterwards covers offsets only up
		// to its last member, and what lies beyond has no value)
		c04Filter{name: "WithValue(A,==false)", apply: func(t *column.Txn) {
			t.WithValue("A", func(v interface{}) bool { b, ok := v.(bool); return ok && !b })
		}, eval: func(m *c04Model, sel map[uint32]bool, first bool) (map[uint32]bool, bool) {
			return minus(sel, m.sets["A"]), !strings.HasSuffix(s.preset, "-late")
		}},
		c04Filter{name: "WithValue(A,any)", apply: func(t *column.Txn) { t.WithValue("A", func(v interface{}) bool { return true }) },
			eval: func(m *c04Model, sel map[uint32]bool, first bool) (map[uint32]bool, bool) {
				return sel, !strings.HasSuffix(s.preset, "-late")
			}},
		c04Filter{name: "WithValue(zz)", apply: func(t *column.Txn) { t.WithValue("zz", func(v interface{}) bool { return true }) }, eval: empty},
		c04Filter{name: "WithInt(n,>1)", apply: func(t *column.Txn) { t.WithInt("n", func(v int64) bool { return v > 1 }) },
			eval: func(m *c04Model, sel map[uint32]bool, first bool) (map[uint32]bool, bool) {
				return nval(m, sel, func(v model.Val) bool { return k.AsInt(v) > 1 }), true
			}},
		c04Filter{name: "WithInt(s)", apply: func(t *column.Txn) { t.WithInt("s", func(v int64) bool { return true }) }, eval: empty},
		c04Filter{name: "WithInt(zz)", apply: func(t *column.Txn) { t.WithInt("zz", func(v int64) bool { return true }) }, eval: empty},
		c04Filter{name: "WithUint(n,>1)", apply: func(t *column.Txn) { t.WithUint("n", func(v uint64) bool { return v > 1 }) },
			eval: func(m *c04Model, sel map[uint32]bool, first bool) (map[uint32]bool, bool) {
				return nval(m, sel, func(v model.Val) bool { return k.AsUint(v) > 1 }), true
			}},
		c04Filter{name: "WithFloat(n,>1)", apply: func(t *column.Txn) { t.WithFloat("n", func(v float64) bool { return v > 1 }) },
			eval: func(m *c04Model, sel map[uint32]bool, first bool) (map[uint32]bool, bool) {
				return nval(m, sel, func(v model.Val) bool { return k.AsFloat(v) > 1 }), true
			}},
		c04Filter{name: "WithString(s,=a)", apply: func(t *column.Txn) { t.WithString("s", func(v string) bool { return v == "a" }) },
			eval: func(m *c04Model, sel map[uint32]bool, first bool) (map[uint32]bool, bool) {
				out := map[uint32]bool{}
				for o := range sel {
					if r := m.w.M.Live[o]; r != nil {
						if v, ok := r.V["s"]; ok && v.S == "a" {
							out[o] = true
						}
					}
				}
				return out, true
			}},
		c04Filter{name: "WithString(e,=x)", apply: func(t *column.Txn) { t.WithString("e", func(v string) bool { return v == "x" }) },
			eval: func(m *c04Model, sel map[uint32]bool, first bool) (map[uint32]bool, bool) {
				return sval(m, sel, "e", func(v string) bool { return v == "x" }), true
			}},
		c04Filter{name: "WithString(e,!=x)", apply: func(t *column.Txn) { t.WithString("e", func(v string) bool { return v != "x" }) },
			eval: func(m *c04Model, sel map[uint32]bool, first bool) (map[uint32]bool, bool) {
				return sval(m, sel, "e", func(v string) bool { return v != "x" }), true
			}},
		c04Filter{name: "WithString(n)", apply: func(t *column.Txn) { t.WithString("n", func(v string) bool { return true }) }, eval: empty},
	)
	return fs
}

// sval: rows of sel holding a string value in col that satisfies pred.
func sval(m *c04Model, sel map[uint32]bool, col string, pred func(string) bool) map[uint32]bool {
	out := map[uint32]bool{}
	for o := range sel {
		if r := m.w.M.Live[o]; r != nil {
			if v, ok := r.V[col]; ok && pred(v.S) {
				out[o] = true
			}
		}
	}
	return out
}

func (s c04Spec) check(w *model.World) (vs []eng.Violation) {
	defer func() {
		if r := recover(); r != nil {
			w.Poisoned = true
			vs = append(vs, eng.Violation{Assert: "no-panic", Witness: "panic in filter chain", Detail: fmt.Sprint(r)})
		}
	}()
	k := model.Kinds[s.kind]
	m := &c04Model{w: w, k: k, live: setOf(w.M.Offsets()), sets: map[string]map[uint32]bool{}}
	m.sets["n"] = setOf(w.M.RowsWith("n", func(model.Val) bool { return true }))
	m.sets["s"] = setOf(w.M.RowsWith("s", func(model.Val) bool { return true }))
	m.sets["b"] = setOf(w.M.RowsWith("b", func(v model.Val) bool { return v.N != 0 }))
	m.sets["A"] = setOf(w.M.RowsWith("n", func(v model.Val) bool { return k.AsInt(v) > 1 }))
	m.sets["s=a"] = setOf(w.M.RowsWith("s", func(v model.Val) bool { return v.S == "a" }))
	fs := s.filters(k)
	chain := make([]int, 0, s.L)
	var rec func(sel map[uint32]bool, judged bool)
	selOK := true
	seenViol := map[string]bool{}
	evalChain := func(sel map[uint32]bool) {
		eng.Sub["filter_chains_evaluated"]++
		want := sorted(sel)
		var names []string
		for _, i := range chain {
			names = append(names, fs[i].name)
		}
		cname := strings.Join(names, ".")
		report := func(assert, witness, detail string) {
			if !seenViol[assert+witness] {
				seenViol[assert+witness] = true
				vs = append(vs, eng.Violation{Assert: assert, Witness: witness, Detail: "chain " + cname + ": " + detail, ReadOnly: true})
			}
		}
		var got []uint32
		var count int
		var cursorBad, readBad string
		var sum model.Val
		var avg float64
		var mn, mx model.Val
		var mnOK, mxOK bool
		w.C.Query(func(t *column.Txn) error {
			for _, i := range chain {
				fs[i].apply(t)
			}
			count = t.Count()
			t.Range(func(idx uint32) {
				got = append(got, idx)
				if t.Index() != idx {
					cursorBad = fmt.Sprintf("Index()=%d at %d", t.Index(), idx)
				}
				if r := w.M.Live[idx]; r != nil && len(got) < 8 {
					gv, ok := k.ReadTxn(t, "n")
					wv, wok := r.V["n"]
					if ok != wok || (ok && gv != wv) {
						readBad = fmt.Sprintf("row %d reads n=%s/%v, model %s/%v", idx, k.Show(gv), ok, k.Show(wv), wok)
					}
				}
			})
			sum = k.Sum(t, "n")
			avg = k.Avg(t, "n")
			mn, mnOK = k.Min(t, "n")
			mx, mxOK = k.Max(t, "n")
			return nil
		})
		if !sameU32s(got, want) {
			wit := "filter chain selects a different set than the set algebra"
			last := fs[chain[len(chain)-1]].name
			if strings.HasPrefix(last, "WithUnion(") && !strings.Contains(last, ",") && len(chain) > 1 {
				wit = "single-name WithUnion on a narrowed selection widens it"
			}
			// known pattern: a filter that names a missing or wrong-type column truncates
			// the selection bitmap to length zero (Bitmap.Clear) instead of zeroing it; a
			// later Union then has nothing to OR into
			cleared := false
			for _, i := range chain[:len(chain)-1] {
				switch fs[i].name {
				case "With(zz)", "WithValue(zz)", "WithInt(s)", "WithInt(zz)", "WithString(n)":
					cleared = true
				}
			}
			if cleared && strings.HasPrefix(last, "Union(") && len(got) == 0 {
				wit = "Union after a filter on a missing or wrong-type column adds nothing"
			}
			report("filter/selection", wit, fmt.Sprintf("Range visits %s, set algebra gives %s", shortU32(got), shortU32(want)))
			selOK = false // extensions of this chain start from a wrong selection: not explored
			return
		}
		if count != len(want) {
			report("filter/count", "Count differs from the size of the selection", fmt.Sprintf("Count()=%d, selection has %d rows", count, len(want)))
		}
		if cursorBad != "" {
			report("range/cursor", "cursor differs from visited offset", cursorBad)
		}
		if readBad != "" {
			report("range/readers", "reader inside Range not positioned on the visited row", readBad)
		}
		// aggregates over the selected rows that hold a value
		var vals []model.Val
		lacking := 0
		for _, o := range want {
			if v, ok := w.M.Live[o].V["n"]; ok {
				vals = append(vals, v)
			} else {
				lacking++
			}
		}
		wit := func(base string) string {
			if lacking > 0 {
				return base + " (selection contains rows without a value)"
			}
			return base
		}
		wsum := model.Val{}
		for _, v := range vals {
			wsum = k.Add(wsum, v)
		}
		if sum != wsum && !(k.Float && bothNaN(k, sum, wsum)) {
			report("aggregate/sum", wit("Sum differs"), fmt.Sprintf("Sum=%s, values sum to %s", k.Show(sum), k.Show(wsum)))
		}
		if len(vals) > 0 {
			wavg := k.AsFloat(wsum) / float64(len(vals))
			// the mean may be computed from the sum in the column's own type (which wraps
			// for integer extremes, as Sum does) or exactly; both are "the average of the values"
			exact := new(big.Float)
			for _, v := range vals {
				if f := k.AsFloat(v); !math.IsNaN(f) && !math.IsInf(f, 0) {
					exact.Add(exact, big.NewFloat(f))
				}
			}
			exact.Quo(exact, big.NewFloat(float64(len(vals))))
			ex, _ := exact.Float64()
			closeTo := func(a, b float64) bool {
				return a == b || math.Abs(a-b) <= 1e-9*math.Max(math.Abs(a), math.Abs(b))
			}
			if !closeTo(avg, wavg) && !closeTo(avg, ex) && !(math.IsNaN(avg) && math.IsNaN(wavg)) && !(math.IsInf(avg, 0) && math.IsInf(wavg, 0)) {
				report("aggregate/avg", wit("Avg differs"), fmt.Sprintf("Avg=%v, values average to %v (%d values, %d selected rows without one)", avg, wavg, len(vals), lacking))
			}
		}
		wmn, wmx, any := model.Val{}, model.Val{}, false
		for _, v := range vals {
			if k.Float && math.IsNaN(k.AsFloat(v)) {
				continue // ordering of NaN is not defined by the property
			}
			if !any || k.Less(v, wmn) {
				wmn = v
			}
			if !any || k.Less(wmx, v) {
				wmx = v
			}
			any = true
		}
		hasNaN := false
		for _, v := range vals {
			if k.Float && math.IsNaN(k.AsFloat(v)) {
				hasNaN = true
			}
		}
		if !hasNaN {
			if mnOK != any || (any && k.AsFloat(mn) != k.AsFloat(wmn)) {
				report("aggregate/min", wit("Min differs"), fmt.Sprintf("Min=%s ok=%v, smallest value %s (any=%v)", k.Show(mn), mnOK, k.Show(wmn), any))
			}
			if mxOK != any || (any && k.AsFloat(mx) != k.AsFloat(wmx)) {
				report("aggregate/max", wit("Max differs"), fmt.Sprintf("Max=%s ok=%v, largest value %s (any=%v)", k.Show(mx), mxOK, k.Show(wmx), any))
			}
		}
	}
	rec = func(sel map[uint32]bool, judged bool) {
		if judged {
			selOK = true
			evalChain(sel)
			if !selOK {
				return
			}
		}
		if len(chain) >= s.L {
			return
		}
		for i := range fs {
			ns, j := fs[i].eval(m, sel, len(chain) == 0)
			chain = append(chain, i)
			rec(ns, judged && j)
			chain = chain[:len(chain)-1]
		}
	}
	rec(m.live, true)
	return vs
}

func bothNaN(k *model.KindDesc, a, b model.Val) bool {
	return math.IsNaN(k.AsFloat(a)) && math.IsNaN(k.AsFloat(b))
}

func sameU32s(a, b []uint32) bool {
	if len(a) != len(b) {
		return false
	}
	for i := range a {
		if a[i] != b[i] {
			return false
		}
	}
	return true
}

func shortU32(xs []uint32) string {
	if len(xs) > 10 {
		return fmt.Sprintf("%v..%v (%d rows)", xs[:5], xs[len(xs)-2:], len(xs))
	}
	return fmt.Sprint(xs)
}

func init() {
	numeric := []string{"int", "int16", "int32", "int64", "uint", "uint16", "uint32", "uint64", "float32", "float64"}
	eng.Register(&eng.Check{
		Prop:  "C04",
		Level: "model_checking",
		Rule: "layouts = every history up to depth d1 over {insert full / partial / without the filtered column / empty, overwrite, delete first / last row (offset reuse)} on presets " +
			"{empty, word-edge, block-edge, sparse-3, aligned-3 (one in-block position in three blocks with different memberships; indexes created before / after the rows)}; at every layout EVERY filter chain up to length L over 39 filter steps (With/Without/Union x {index A, index B, value column, " +
			"bool column, string column, missing name}, WithUnion pairs and singles, WithValue/WithInt/WithUint/WithFloat/WithString incl. wrong-type and missing columns) is run on a real " +
			"transaction and compared with set algebra on the model: selection, Count, Range order/cursor/readers, Sum/Avg/Min/Max over the selected rows holding a value; per numeric kind",
		Assumptions: []string{
			"not judged: a first Union/WithUnion that names only missing columns; Min/Max when a selected value is NaN",
			"Avg is compared only when at least one selected row holds a value",
		},
		Budget: budget(170*time.Second, 28*time.Minute),
		Bounds: func(tier string) map[string]any {
			if tier == "quick" {
				return map[string]any{"d1": "3 (empty), 2 (sparse-3, aligned-3, word-edge), 1 (block-edge)", "L": "2 (all kinds), 3 (int, d1=2), 1 (block-edge)", "filter_steps": 39}
			}
			return map[string]any{"d1": "3 with L=2 and 2 with L=3 (empty), 3/L2 and 1/L3 (sparse-3), 2 (aligned-3: L2, aligned-3-late: L3, word-edge, block-edge: L2); int also d1=3/L3 and d1=4/L2", "filter_steps": 39}
		},
		Units: func(tier string) (units []eng.Unit) {
			var specs []c04Spec
			for _, kd := range numeric {
				if tier == "quick" {
					specs = append(specs, c04Spec{kd, "empty", 3, 2}, c04Spec{kd, "sparse-3", 2, 2})
					if kd == "int" || kd == "uint16" || kd == "float64" {
						specs = append(specs, c04Spec{kd, "aligned-3-late", 2, 2})
					}
					if kd == "int" {
						specs = append(specs, c04Spec{kd, "empty", 2, 3}, c04Spec{kd, "aligned-3", 2, 2}, c04Spec{kd, "word-edge", 2, 2}, c04Spec{kd, "block-edge", 1, 1})
					}
				} else {
					specs = append(specs,
						c04Spec{kd, "empty", 3, 2}, c04Spec{kd, "empty", 2, 3},
						c04Spec{kd, "sparse-3", 3, 2}, c04Spec{kd, "sparse-3", 1, 3},
						c04Spec{kd, "aligned-3", 2, 2}, c04Spec{kd, "aligned-3-late", 2, 3},
						c04Spec{kd, "word-edge", 2, 2}, c04Spec{kd, "block-edge", 2, 2})
					if kd == "int" {
						specs = append(specs, c04Spec{kd, "empty", 3, 3}, c04Spec{kd, "empty", 4, 2})
					}
				}
			}
			for _, s := range specs {
				s := s
				units = append(units, &eng.SeqSpec{UnitName: s.name(), Prop: "C04", Depth: s.d1, Split: 1, New: s.newState})
			}
			return units
		},
	})
}
