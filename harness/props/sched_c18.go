package props

import (
	"bytes"
	"fmt"
	"time"

	"colverif/eng"
	"colverif/model"
	"colverif/vsched"

	"github.com/kelindar/column"
	"github.com/kelindar/column/commit"
)

// ---------------------------------------------------------------------------
// C18 — concurrent use is free of data races and deadlocks.
// SCHED in two modes over the same scenarios: (a) the -race build, in which the
// scheduler's hand-offs are hidden from the race detector so that it sees only the
// program's own synchronisation - every explored schedule is checked for ALL
// unordered conflicting accesses it performs; (b) the plain build at a higher
// preemption bound for deadlocks (a schedule after which some thread can never run).
// The thread bodies touch no shared harness state.
// ---------------------------------------------------------------------------

type c18Scenario struct {
	name string
	mk   func() (bodies []func(), closeFn func())
}

func c18World(keyed bool) *model.World {
	cols := []model.ColDef{{Name: "n", Kind: "int"}, {Name: "s", Kind: "string"}, {Name: "e", Kind: "enum"}}
	seed := []model.Write{{Col: "n", V: model.Val{N: 2}}, {Col: "s", V: model.Val{S: "m"}}, {Col: "e", V: model.Val{S: "x"}}}
	if keyed {
		cols = append([]model.ColDef{{Name: "key", Kind: "key"}}, cols...)
	}
	w := model.NewWorld(model.Config{Cols: cols})
	if keyed {
		w.SeedReplay(map[uint32][]model.Write{R0: append([]model.Write{{Col: "key", V: model.Val{S: "s0"}}}, seed...), R1: append([]model.Write{{Col: "key", V: model.Val{S: "s1"}}}, seed...)})
	} else {
		w.SeedReplay(map[uint32][]model.Write{R0: seed, R1: seed})
	}
	// start from a transaction pool that has seen a transaction that gave up (after
	// buffering a write) and one that only read, like every other SCHED scenario
	w.C.Query(func(txn *column.Txn) error {
		txn.QueryAt(R0, func(r column.Row) error { r.SetInt("n", 77); return nil })
		return fmt.Errorf("verif: warm-up transaction gives up")
	})
	w.C.Query(func(txn *column.Txn) error { txn.Count(); return nil })
	return w
}

func c18Scenarios() []c18Scenario {
	putN := func(c *column.Collection, off uint32, v int) func() {
		return func() { c.QueryAt(off, func(r column.Row) error { r.SetInt("n", v); return nil }) }
	}
	mergeN := func(c *column.Collection, off uint32) func() {
		return func() { c.QueryAt(off, func(r column.Row) error { r.MergeInt("n", 1); return nil }) }
	}
	readN := func(c *column.Collection, off uint32) func() {
		return func() { c.QueryAt(off, func(r column.Row) error { r.Int("n"); r.String("s"); return nil }) }
	}
	rangeN := func(c *column.Collection) func() {
		return func() {
			c.Query(func(txn *column.Txn) error {
				rn := txn.Int("n")
				return txn.Range(func(uint32) { rn.Get() })
			})
		}
	}
	return []c18Scenario{
		{"grow-into-new-block||point-read||range", func() ([]func(), func()) {
			// only block 0 exists; a replayed commit (the replica path) makes the
			// collection grow into block 2 beside readers of block 0
			w := model.NewWorld(model.Config{Cols: []model.ColDef{{Name: "n", Kind: "int"}, {Name: "s", Kind: "string"}}})
			w.SeedReplay(map[uint32][]model.Write{R0: {{Col: "n", V: model.Val{N: 2}}, {Col: "s", V: model.Val{S: "m"}}}})
			rows, nb := commit.NewBuffer(8), commit.NewBuffer(8)
			rows.Reset("row")
			rows.PutOperation(commit.Insert, 2*16384+5)
			nb.Reset("n")
			nb.PutInt(commit.Put, 2*16384+5, 9)
			cm := commit.Commit{ID: commit.Next(), Chunk: 2, Updates: []*commit.Buffer{rows, nb}}
			return []func(){func() { w.C.Replay(cm) }, readN(w.C, R0), rangeN(w.C)}, w.Close
		}},
		{"grow-into-new-block||filter-by-name||union-filter", func() ([]func(), func()) {
			// as above, beside filters that fetch a column's / an index's per-block bitmap by name
			w := model.NewWorld(model.Config{Cols: []model.ColDef{{Name: "n", Kind: "int"}, {Name: "s", Kind: "string"}, {Name: "b", Kind: "bool"}}})
			w.C.CreateIndex("big", "n", func(r column.Reader) bool { return r.Int() > 1 })
			w.SeedReplay(map[uint32][]model.Write{R0: {{Col: "n", V: model.Val{N: 2}}, {Col: "s", V: model.Val{S: "m"}}, {Col: "b", V: model.Val{N: 1}}}})
			rows, nb := commit.NewBuffer(8), commit.NewBuffer(8)
			rows.Reset("row")
			rows.PutOperation(commit.Insert, 2*16384+5)
			nb.Reset("n")
			nb.PutInt(commit.Put, 2*16384+5, 9)
			cm := commit.Commit{ID: commit.Next(), Chunk: 2, Updates: []*commit.Buffer{rows, nb}}
			f1 := func() {
				w.C.Query(func(txn *column.Txn) error { txn.With("n").Without("s").Count(); return nil })
			}
			f2 := func() {
				w.C.Query(func(txn *column.Txn) error { txn.With("b").Union("big").WithUnion("s", "big").Count(); return nil })
			}
			return []func(){func() { w.C.Replay(cm) }, f1, f2}, w.Close
		}},
		{"grow-into-new-block||writer-block0", func() ([]func(), func()) {
			w := model.NewWorld(model.Config{Cols: []model.ColDef{{Name: "n", Kind: "int"}, {Name: "s", Kind: "string"}}})
			w.SeedReplay(map[uint32][]model.Write{R0: {{Col: "n", V: model.Val{N: 2}}, {Col: "s", V: model.Val{S: "m"}}}})
			rows, nb := commit.NewBuffer(8), commit.NewBuffer(8)
			rows.Reset("row")
			rows.PutOperation(commit.Insert, 16384+5)
			nb.Reset("n")
			nb.PutInt(commit.Put, 16384+5, 9)
			cm := commit.Commit{ID: commit.Next(), Chunk: 1, Updates: []*commit.Buffer{rows, nb}}
			wr := func() {
				w.C.QueryAt(R0, func(r column.Row) error { r.MergeInt("n", 1); r.SetString("s", "w"); return nil })
			}
			return []func(){func() { w.C.Replay(cm) }, wr}, w.Close
		}},
		{"insert-into-new-block||point-read", func() ([]func(), func()) {
			// block 0 is full: the insert lands in block 1 and grows every column
			w := model.NewWorld(model.Config{Cols: []model.ColDef{{Name: "n", Kind: "int"}, {Name: "s", Kind: "string"}}})
			w.Txn([]model.Act{{Op: "bulk", N: 16384, W: []model.Write{{Col: "n", V: model.Val{N: 1}}}}}, false)
			ins := func() { w.C.Insert(func(r column.Row) error { r.SetInt("n", 5); return nil }) }
			return []func(){ins, readN(w.C, 7)}, w.Close
		}},
		{"insert-into-new-block||snapshot", func() ([]func(), func()) {
			// block 0 is full: the insert reserves the first offset of block 1 when it is
			// issued and grows the columns when it commits; a snapshot runs beside it
			w := model.NewWorld(model.Config{Cols: []model.ColDef{{Name: "n", Kind: "int"}, {Name: "s", Kind: "string"}}})
			w.Txn([]model.Act{{Op: "bulk", N: 16384, W: []model.Write{{Col: "n", V: model.Val{N: 1}}}}}, false)
			ins := func() { w.C.Insert(func(r column.Row) error { r.SetInt("n", 5); return nil }) }
			return []func(){ins, func() { var b bytes.Buffer; w.C.Snapshot(&b) }}, w.Close
		}},
		{"multi-block-writer||snapshot", func() ([]func(), func()) {
			w := c18World(false)
			wr := func() {
				w.C.Query(func(txn *column.Txn) error {
					txn.QueryAt(R0, func(r column.Row) error { r.SetInt("n", 7); r.SetEnum("e", "y"); return nil })
					return txn.QueryAt(R1, func(r column.Row) error { r.MergeInt("n", 1); r.SetString("s", "q"); return nil })
				})
			}
			return []func(){wr, func() { var b bytes.Buffer; w.C.Snapshot(&b) }}, w.Close
		}},
		{"writer||createIndex", func() ([]func(), func()) {
			w := c18World(false)
			return []func(){putN(w.C, R0, 7), func() { w.C.CreateIndex("big", "n", func(r column.Reader) bool { return r.Int() > 5 }) }}, w.Close
		}},
		{"writer||createIndex||filter", func() ([]func(), func()) {
			w := c18World(false)
			w.C.CreateIndex("old", "n", func(r column.Reader) bool { return r.Int() > 1 })
			filter := func() { w.C.Query(func(txn *column.Txn) error { txn.With("old").Count(); return nil }) }
			return []func(){putN(w.C, R1, 7), func() { w.C.CreateIndex("big", "n", func(r column.Reader) bool { return r.Int() > 5 }) }, filter}, w.Close
		}},
		{"createColumn||writer||range", func() ([]func(), func()) {
			w := c18World(false)
			mk := func() { w.C.CreateColumn("late", column.ForInt()) }
			return []func(){mk, putN(w.C, R0, 7), rangeN(w.C)}, w.Close
		}},
		{"dropColumn||reader-of-another-column||writer", func() ([]func(), func()) {
			w := c18World(false)
			w.C.CreateColumn("extra", column.ForInt())
			return []func(){func() { w.C.DropColumn("extra") }, readN(w.C, R1), putN(w.C, R0, 7)}, w.Close
		}},
		{"writer||dropIndex", func() ([]func(), func()) {
			w := c18World(false)
			w.C.CreateIndex("big", "n", func(r column.Reader) bool { return r.Int() > 5 })
			return []func(){putN(w.C, R0, 7), func() { w.C.DropIndex("big") }}, w.Close
		}},
		{"writer||createTrigger+dropTrigger", func() ([]func(), func()) {
			w := c18World(false)
			return []func(){mergeN(w.C, R0), func() {
				w.C.CreateTrigger("t", "n", func(r column.Reader) {})
				w.C.DropTrigger("t")
			}}, w.Close
		}},
		{"writer||createSortIndex||ascend", func() ([]func(), func()) {
			w := c18World(false)
			w.C.CreateSortIndex("sorted0", "s")
			wr := func() { w.C.QueryAt(R0, func(r column.Row) error { r.SetString("s", "zz"); return nil }) }
			asc := func() {
				w.C.Query(func(txn *column.Txn) error {
					rs := txn.String("s")
					return txn.Ascend("sorted0", func(uint32) { rs.Get() })
				})
			}
			return []func(){wr, func() { w.C.CreateSortIndex("sorted1", "s") }, asc}, w.Close
		}},
		{"enum-writer-block0||enum-reader-block1", func() ([]func(), func()) {
			w := c18World(false)
			wr := func() { w.C.QueryAt(R0, func(r column.Row) error { r.SetEnum("e", "brand-new"); return nil }) }
			rd := func() { w.C.QueryAt(R1, func(r column.Row) error { r.Enum("e"); return nil }) }
			return []func(){wr, rd}, w.Close
		}},
		{"inserter||deleter||inserter", func() ([]func(), func()) {
			w := c18World(false)
			ins := func() { w.C.Insert(func(r column.Row) error { r.SetInt("n", 5); r.SetString("s", "i"); return nil }) }
			return []func(){ins, func() { w.C.DeleteAt(R0) }, ins}, w.Close
		}},
		{"restore-into-second||writer-on-first", func() ([]func(), func()) {
			w := c18World(false)
			snap, _ := w.Snapshot()
			w2 := w.Twin(model.Config{}, true)
			return []func(){func() { w2.C.Restore(bytes.NewReader(snap)) }, putN(w.C, R0, 7), readN(w.C, R1)}, func() { w.Close(); w2.Close() }
		}},
		{"keyed-upsert||key-reader||key-delete", func() ([]func(), func()) {
			w := c18World(true)
			up := func() { w.C.UpsertKey("k", func(r column.Row) error { r.SetInt("n", 4); return nil }) }
			rd := func() { w.C.QueryKey("s0", func(r column.Row) error { r.Int("n"); r.Key(); return nil }) }
			return []func(){up, rd, func() { w.C.DeleteKey("s1") }}, w.Close
		}},
		{"filtered-range||merger||count", func() ([]func(), func()) {
			w := c18World(false)
			fr := func() {
				w.C.Query(func(txn *column.Txn) error {
					rn := txn.Int("n")
					txn.WithInt("n", func(v int64) bool { return v > 0 }).Range(func(uint32) { rn.Get() })
					rn.Sum()
					return nil
				})
			}
			return []func(){fr, mergeN(w.C, R0), func() { w.C.Count() }}, w.Close
		}},
		{"snapshot||inserter||deleter", func() ([]func(), func()) {
			w := c18World(false)
			ins := func() { w.C.Insert(func(r column.Row) error { r.SetInt("n", 5); return nil }) }
			return []func(){func() { var b bytes.Buffer; w.C.Snapshot(&b) }, ins, func() { w.C.DeleteAt(R1) }}, w.Close
		}},
		{"record-merge-block0||record-merge-block1||string-merge", func() ([]func(), func()) {
			w := model.NewWorld(model.Config{Cols: []model.ColDef{{Name: "r", Kind: "record"}, {Name: "s", Kind: "string"}}})
			seed := []model.Write{{Col: "r", V: model.Val{S: "r"}}, {Col: "s", V: model.Val{S: "s"}}}
			w.SeedReplay(map[uint32][]model.Write{R0: seed, R1: seed})
			mr := func(off uint32) func() {
				return func() {
					w.C.QueryAt(off, func(r column.Row) error { return r.MergeRecord("r", &model.Rec{B: []byte("d")}) })
				}
			}
			ms := func() { w.C.QueryAt(R0, func(r column.Row) error { r.MergeString("s", "x"); return nil }) }
			return []func(){mr(R0), mr(R1), ms}, w.Close
		}},
		{"two-snapshots||writer", func() ([]func(), func()) {
			w := c18World(false)
			sn := func() { var b bytes.Buffer; w.C.Snapshot(&b) }
			return []func(){sn, sn, mergeN(w.C, R1)}, w.Close
		}},
	}
}

func c18Units(tier string) (units []eng.Unit) {
	raceBound, plainBound := 2, 2
	if tier != "quick" {
		raceBound, plainBound = 3, 4
	}
	for _, sc := range c18Scenarios() {
		sc := sc
		mk := func() *eng.SchedInstance {
			bodies, closeFn := sc.mk()
			return &eng.SchedInstance{Threads: bodies, Close: closeFn,
				Check: func(res *vsched.Result) (string, []eng.Violation) {
					var vs []eng.Violation
					for i, p := range res.Panics {
						if p != nil {
							vs = append(vs, eng.Violation{Assert: "no-panic", Witness: fmt.Sprintf("panic in thread %d of %s", i, sc.name), Detail: fmt.Sprint(p)})
						}
					}
					return "terminated", vs
				}}
		}
		rb, pb := raceBound, plainBound
		if sc.name == "insert-into-new-block||point-read" || sc.name == "insert-into-new-block||snapshot" {
			rb, pb = rb-1, pb-1 // seeding 16K rows per execution is slow, above all in the race build
		}
		units = append(units,
			&eng.SchedSpec{UnitName: "race/" + sc.name, Prop: "C18", Bound: rb, Split: true, JudgeDeadlock: true, Race: true, New: mk},
			&eng.SchedSpec{UnitName: "deadlock/" + sc.name, Prop: "C18", Bound: pb, Split: true, JudgeDeadlock: true, New: mk})
	}
	return units
}

func init() {
	eng.Register(&eng.Check{
		Prop:  "C18",
		Level: "model_checking", NodeStates: true,
		Rule: "SCHED over 21 scenarios mixing transactions, point reads, filtered iteration, inserts, deletes, growth into a new block, snapshots, restore into another collection, index / " +
			"sorted index / trigger creation and removal, column creation and removal, keyed operations. race/* units run in the -race build with the scheduler's hand-offs hidden from the detector " +
			"(runtime.RaceDisable), so that every explored schedule is checked against the program's own happens-before order for ALL conflicting accesses it performs; a report is " +
			"identified by the pair of innermost kelindar/column functions. deadlock/* units run the plain build at a higher bound; a schedule after which some thread can never run is a " +
			"deadlock. states = decision nodes; distinct = distinct (scenario, outcome)",
		Assumptions: []string{
			"the race oracle is the Go race detector (vector clocks, bounded shadow history); only sequentially consistent executions are produced",
			"'real parallelism with the race detector' is replaced by exhaustive schedule exploration with a happens-before race oracle; see DESIGN.md §5.5",
		},
		Budget: budget(170*time.Second, 28*time.Minute),
		Bounds: func(tier string) map[string]any {
			if tier == "quick" {
				return map[string]any{"preemption_bound_race": 2, "preemption_bound_deadlock": 2, "scenarios": 21, "note": "the 16K-row scenario runs one bound lower"}
			}
			return map[string]any{"preemption_bound_race": 3, "preemption_bound_deadlock": 4, "scenarios": 21}
		},
		Units: c18Units,
	})
}
