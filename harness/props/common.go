// Package props holds one spec per property: alphabets / scenarios / histories and
// the oracle that judges what the engines explore.
package props

import (
	"fmt"
	"sort"
	"strings"
	"time"

	"colverif/eng"
	"colverif/model"
)

type opx struct {
	label string
	run   func() []eng.Violation
	// tag marks letters built to reach one specific, separately recorded defect: a
	// mismatch observed right after such a letter carries the tag in its witness, so
	// that a known finding suppresses exactly this operation pattern and nothing else.
	tag string
}

// worldState adapts a World plus an alphabet function to eng.SeqState.
type worldState struct {
	w     *model.World
	ops   func(w *model.World) []opx
	check func(w *model.World) []eng.Violation
	extra []*model.World // further worlds to close (replicas, restored copies)
	// latent is the tag of the first tagged letter earlier in this history: the
	// recorded defect it reaches may corrupt hidden state (a stale sorted-index key)
	// that shows only several letters later; such mismatches carry a second form of the
	// tag. The same mismatch in a history WITHOUT the tagged letter is reported as usual.
	latent string
}

func (s *worldState) Ops() []string {
	if s.w.Poisoned {
		return nil
	}
	ops := s.ops(s.w)
	out := make([]string, len(ops))
	for i, o := range ops {
		out[i] = o.label
	}
	return out
}

func (s *worldState) Apply(i int, check bool) (vs []eng.Violation) {
	if s.w.Poisoned {
		return nil
	}
	ops := s.ops(s.w)
	if i >= len(ops) {
		return []eng.Violation{{Assert: "harness/alphabet", Witness: "alphabet changed", Detail: fmt.Sprintf("op %d of %d", i, len(ops))}}
	}
	func() {
		defer func() {
			if r := recover(); r != nil {
				s.w.Poisoned = true
				vs = append(vs, eng.Violation{Assert: "no-panic", Witness: "panic in " + labelClass(ops[i].label), Detail: fmt.Sprintf("%s: panic: %v", ops[i].label, r)})
			}
		}()
		s.w.PointRead()
		vs = ops[i].run()
	}()
	if check && !s.w.Poisoned {
		vs = append(vs, s.check(s.w)...)
	}
	if t := ops[i].tag; t != "" {
		for k := range vs {
			vs[k].Witness += " [after " + t + "]"
		}
		if s.latent == "" {
			s.latent = t
		} else if !strings.Contains(s.latent, t) {
			// several recorded defects met on the way: all are named, in a fixed order
			parts := append(strings.Split(s.latent, " + "), t)
			sort.Strings(parts)
			s.latent = strings.Join(parts, " + ")
		}
	} else if s.latent != "" {
		for k := range vs {
			base := vs[k].Witness
			vs[k].Witness = base + " [later in a history containing: " + s.latent + "]"
			// listed under any ONE of the recorded defects met on the way
			if parts := strings.Split(s.latent, " + "); len(parts) > 1 {
				for _, p := range parts {
					vs[k].Alt = append(vs[k].Alt, base+" [later in a history containing: "+p+"]")
				}
			}
		}
	}
	return vs
}

func (s *worldState) Key() (string, bool) {
	return s.w.M.Key(func(o uint32) bool { return s.w.Bulk[o] }), len(s.w.M.Live) > 0
}

func (s *worldState) Close() {
	s.w.Close()
	for _, x := range s.extra {
		x.Close()
	}
}

// labelClass reduces a letter label to its kind (the part before any argument).
func labelClass(l string) string {
	for i, c := range l {
		if c == '(' || c == '[' || c == ':' {
			return l[:i]
		}
	}
	return l
}

// txnOp wraps a transaction as an alphabet letter.
func txnOp(w *model.World, acts []model.Act, fail bool) opx {
	return opx{label: model.ActsString(acts, fail), run: func() []eng.Violation {
		return w.Txn(acts, fail).Viol
	}}
}

// firstRows returns up to n live offsets that are not bulk filler, ascending.
func firstRows(w *model.World, n int) []uint32 {
	var out []uint32
	for _, o := range w.M.Offsets() {
		if !w.Bulk[o] {
			out = append(out, o)
			if len(out) == n {
				break
			}
		}
	}
	return out
}

// lastRow returns the highest live non-bulk offset.
func lastRow(w *model.World) (uint32, bool) {
	offs := w.M.Offsets()
	for i := len(offs) - 1; i >= 0; i-- {
		if !w.Bulk[offs[i]] {
			return offs[i], true
		}
	}
	return 0, false
}

// ---------------------------------------------------------------- presets

// applyPreset brings a fresh world into a named layout through the public API.
func applyPreset(w *model.World, preset string, seed []model.Write) {
	switch preset {
	case "empty":
	case "word-edge":
		// 63 live rows: the next insert crosses a 64-bit word of the fill list
		w.Txn([]model.Act{{Op: "bulk", N: 63, W: seed}}, false)
	case "block-edge":
		// offsets 0..16382 occupied: the next two inserts land on 16383 and 16384
		w.Txn([]model.Act{{Op: "bulk", N: 16383, W: seed}}, false)
	case "sparse-3":
		// one row in each of blocks 0, 1, 2 with holes below; the rows of blocks 0 and 2
		// sit at the same in-block position (state that a per-block loop fails to
		// reset shows there), the row of block 1 at another one (a block-relative
		// offset used as an absolute one lands on a free slot)
		w.SeedReplay(map[uint32][]model.Write{5: seed, 16384 + 7: seed, 32768 + 5: seed})
	case "many-distinct":
		// 200 rows with pairwise distinct values in column v (interning tables and maps
		// grow past their initial size); every row is value-checked
		var acts []model.Act
		for i := 0; i < 200; i++ {
			acts = append(acts, model.Act{Op: "insert", W: append(append([]model.Write{}, seed...), model.Write{Col: "v", V: model.Val{S: fmt.Sprintf("distinct-%03d", i)}})})
		}
		w.Txn(acts, false)
	case "two-blocks":
		w.SeedReplay(map[uint32][]model.Write{3: seed, 16384 + 1: seed})
	case "dense-2+1":
		// rows 0 and 1 and the first row of the second block: after one delete, the hole is
		// the lowest free offset, so a transaction's row markers interleave across blocks
		// (delete in block 0, delete in block 1, insert into block 0) and the freed offset
		// is re-used by the very next insert
		w.SeedReplay(map[uint32][]model.Write{0: seed, 1: seed, 16384: seed})
	default:
		panic("unknown preset " + preset)
	}
}

func budget(quick, thorough time.Duration) func(string) time.Duration {
	return func(tier string) time.Duration {
		if tier == "quick" {
			return quick
		}
		return thorough
	}
}
