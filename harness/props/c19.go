package props

import (
	"fmt"
	"sort"
	"strings"
	"time"

	"colverif/eng"
	"colverif/model"

	"github.com/kelindar/column"
)

// ---------------------------------------------------------------------------
// C19 — triggers fire once per committed change, with the final value.
// SEQ: watched column of kind int (additive merge), string (concatenating merge) or
// bool; the trigger is created and dropped by alphabet letters. After every
// transaction the callback log must equal the model's list of committed stores and
// row deletions (multiset across rows, issue order per row).
// ---------------------------------------------------------------------------

type c19Spec struct {
	kind   string
	preset string
	depth  int
}

func (s c19Spec) name() string { return fmt.Sprintf("%s/%s/d%d", s.kind, s.preset, s.depth) }

type c19Event struct {
	off uint32
	del bool
	val string
}

func (e c19Event) String() string {
	if e.del {
		return fmt.Sprintf("delete@%d", e.off)
	}
	return fmt.Sprintf("store@%d=%s", e.off, e.val)
}

type c19State struct {
	worldState
	spec    c19Spec
	active  bool
	created int
	log     []c19Event
	log2    []c19Event // what a second, identical trigger registered right after the first is told
	oneShot bool       // a second trigger on the column that drops ITSELF from inside its first callback
	shots   int
}

func (s c19Spec) newState() eng.SeqState {
	w := model.NewWorld(model.Config{Cols: []model.ColDef{{Name: "v", Kind: s.kind}, {Name: "o", Kind: "int"}}})
	k := model.Kinds[s.kind]
	applyPreset(w, s.preset, []model.Write{{Col: "v", V: k.Values[0]}})
	st := &c19State{spec: s}
	st.w = w
	st.ops = func(w *model.World) []opx { return s.ops(st) }
	st.check = func(w *model.World) []eng.Violation { return w.Check(model.Obs{Values: true}) }
	return st
}

func (st *c19State) Key() (string, bool) {
	k, _ := st.worldState.Key()
	return fmt.Sprintf("%s trig=%v once=%v", k, st.active, st.oneShot), st.active
}

func (st *c19State) show(v model.Val) string {
	k := model.Kinds[st.spec.kind]
	if k.IsBool {
		return fmt.Sprint(v.N != 0)
	}
	return k.Show(v)
}

// callback records what the trigger is told
func (st *c19State) callback(r column.Reader) { st.record(r, &st.log) }

func (st *c19State) callback2(r column.Reader) { st.record(r, &st.log2) }

func (st *c19State) record(r column.Reader, log *[]c19Event) {
	k := model.Kinds[st.spec.kind]
	e := c19Event{off: r.Index()}
	switch {
	case k.IsBool:
		if r.Bool() {
			e.val = "true"
		} else {
			e.del = true // a false store and a row deletion look alike for bool columns
		}
	case r.IsDelete():
		e.del = true
	case k.Numeric:
		e.val = k.Show(model.Val{N: uint64(int64(r.Int()))})
	default:
		e.val = k.Show(model.Val{S: strings.Clone(r.String())})
	}
	*log = append(*log, e)
}

// run executes a transaction and compares the trigger log with the expectation.
func (st *c19State) txn(acts []model.Act, fail bool, tag string) opx {
	w := st.w
	k := model.Kinds[st.spec.kind]
	return opx{label: model.ActsString(acts, fail), tag: tag, run: func() []eng.Violation {
		// expected events, from the pre-state of the model
		cur := map[uint32]*model.Val{}
		get := func(off uint32) *model.Val {
			if v, ok := cur[off]; ok {
				return v
			}
			if r := w.M.Live[off]; r != nil {
				if v, ok := r.V["v"]; ok {
					vv := v
					cur[off] = &vv
					return cur[off]
				}
			}
			cur[off] = nil
			return nil
		}
		type pendingEv struct {
			insertNo int // >=0: offset is that of the n-th insert of the transaction
			ev       c19Event
		}
		var exp []pendingEv
		nIns := 0
		addWrites := func(off uint32, insertNo int, ws []model.Write) {
			var local *model.Val
			if insertNo < 0 {
				local = get(off)
			}
			for _, x := range ws {
				if x.Col != "v" {
					continue
				}
				var nv model.Val
				if x.Merge {
					old := model.Val{}
					if local != nil {
						old = *local
					}
					nv = k.MergeFn(old, x.V)
				} else {
					nv = x.V
				}
				local = &nv
				if insertNo < 0 {
					cur[off] = local
				}
				e := c19Event{off: off, val: st.show(nv)}
				if k.IsBool && nv.N == 0 {
					e = c19Event{off: off, del: true}
				}
				exp = append(exp, pendingEv{insertNo, e})
			}
		}
		for _, a := range acts {
			switch a.Op {
			case "insert":
				addWrites(0, nIns, a.W)
				nIns++
			case "put":
				addWrites(a.Off, -1, a.W)
			case "del":
				if _, live := w.M.Live[a.Off]; live {
					exp = append(exp, pendingEv{-1, c19Event{off: a.Off, del: true}})
				}
			}
		}
		st.log, st.log2 = st.log[:0], st.log2[:0]
		res := w.Txn(acts, fail)
		vs := res.Viol
		if w.Poisoned {
			return vs
		}
		var want []c19Event
		if st.active && res.Err == nil {
			for _, p := range exp {
				e := p.ev
				if p.insertNo >= 0 {
					if p.insertNo >= len(res.Inserted) {
						continue
					}
					e.off = res.Inserted[p.insertNo]
				}
				want = append(want, e)
			}
		}
		got := append([]c19Event{}, st.log...)
		if d := c19Compare(got, want); d != "" {
			wit := d
			if !st.active {
				wit = "trigger called although none is registered"
			} else if res.Err != nil {
				wit = "trigger called for a transaction that rolled back"
			}
			vs = append(vs, eng.Violation{Assert: "trigger/events", Witness: wit, ReadOnly: true,
				Detail: fmt.Sprintf("%s: trigger was told %v, committed changes are %v", model.ActsString(acts, fail), got, want)})
		} else if d := c19Compare(st.log2, want); d != "" {
			// (only when the first trigger was right: the second one is there to see what
			// happens to a trigger that has siblings before it)
			vs = append(vs, eng.Violation{Assert: "trigger/events", Witness: d + " (second trigger on the same column)", ReadOnly: true,
				Detail: fmt.Sprintf("%s: the second trigger was told %v, committed changes are %v", model.ActsString(acts, fail), st.log2, want)})
		}
		return vs
	}}
}

// c19Compare returns "" when got and want are equal as multisets and agree on the
// order of events per row.
func c19Compare(got, want []c19Event) string {
	key := func(es []c19Event) []string {
		out := make([]string, len(es))
		for i, e := range es {
			out[i] = e.String()
		}
		sort.Strings(out)
		return out
	}
	g, w := key(got), key(want)
	if strings.Join(g, ",") != strings.Join(w, ",") {
		if len(got) > len(want) {
			return "trigger called more often than changes were committed (or with other values)"
		}
		if len(got) < len(want) {
			return "trigger missed a committed change"
		}
		return "trigger received a value other than the one finally stored"
	}
	per := func(es []c19Event) map[uint32]string {
		m := map[uint32]string{}
		for _, e := range es {
			m[e.off] += e.String() + ";"
		}
		return m
	}
	pg, pw := per(got), per(want)
	for off, s := range pw {
		if pg[off] != s {
			return "stores to one row reported in another order than issued"
		}
	}
	return ""
}

func (s c19Spec) ops(st *c19State) (out []opx) {
	w := st.w
	k := model.Kinds[s.kind]
	v0, v1 := k.Values[0], k.Values[1]
	wv := func(v model.Val, merge bool) model.Write { return model.Write{Col: "v", V: v, Merge: merge} }
	o1 := model.Write{Col: "o", V: model.Val{N: 1}}
	out = append(out,
		st.txn([]model.Act{{Op: "insert", W: []model.Write{o1, wv(v0, false)}}}, false, ""),
		st.txn([]model.Act{{Op: "insert", W: []model.Write{o1}}}, false, ""),
	)
	rows := firstRows(w, 2)
	if hi, ok := lastRow(w); ok && len(rows) == 2 && hi != rows[1] {
		rows[1] = hi
	}
	if len(rows) > 0 {
		r0 := rows[0]
		out = append(out,
			st.txn([]model.Act{{Op: "put", Off: r0, W: []model.Write{wv(v1, false)}}}, false, ""),
			st.txn([]model.Act{{Op: "put", Off: r0, W: []model.Write{wv(v0, false), wv(v1, false)}}}, false, ""),
			st.txn([]model.Act{{Op: "put", Off: r0, W: []model.Write{o1}}}, false, ""), // other column only: no store to v
			st.txn([]model.Act{{Op: "del", Off: r0}}, false, ""),
			st.txn([]model.Act{{Op: "put", Off: r0, W: []model.Write{wv(v1, false)}}, {Op: "insert", W: []model.Write{wv(v0, false)}}}, true, ""),
			st.txn([]model.Act{{Op: "del", Off: r0}}, true, ""),
		)
		if k.Mergeable {
			d := k.Deltas[0]
			tag := ""
			if !k.Numeric {
				tag = "variable-length merge then overwrite of the same row in one transaction"
			}
			out = append(out,
				st.txn([]model.Act{{Op: "put", Off: r0, W: []model.Write{wv(d, true)}}}, false, ""),
				st.txn([]model.Act{{Op: "put", Off: r0, W: []model.Write{wv(v0, false), wv(d, true)}}}, false, ""),
				st.txn([]model.Act{{Op: "put", Off: r0, W: []model.Write{wv(d, true), wv(v0, false)}}}, false, tag),
				st.txn([]model.Act{{Op: "insert", W: []model.Write{wv(d, true)}}}, false, ""),
			)
			// a merge whose result equals the value already stored is a committed store too
			neutral := model.Val{}
			out = append(out,
				st.txn([]model.Act{{Op: "put", Off: r0, W: []model.Write{wv(neutral, true)}}}, false, ""),
				st.txn([]model.Act{{Op: "put", Off: r0, W: []model.Write{wv(v1, false), wv(neutral, true)}}}, false, ""),
			)
		}
		if len(rows) > 1 {
			out = append(out, st.txn([]model.Act{{Op: "put", Off: rows[1], W: []model.Write{wv(v0, false)}}, {Op: "put", Off: r0, W: []model.Write{wv(v1, false)}}}, false, ""))
			out = append(out, st.txn([]model.Act{{Op: "del", Off: rows[1]}, {Op: "put", Off: r0, W: []model.Write{wv(v0, false)}}}, false, ""))
		}
	}
	if !st.oneShot {
		out = append(out, opx{label: "createOneShotTrigger(on v, drops itself in its first callback)", run: func() []eng.Violation {
			st.shots++
			name := fmt.Sprintf("once%d", st.shots)
			if err := w.C.CreateTrigger(name, "v", func(column.Reader) {
				if st.oneShot {
					st.oneShot = false
					w.C.DropTrigger(name)
				}
			}); err != nil {
				return []eng.Violation{{Assert: "createtrigger", Witness: "CreateTrigger failed", Detail: err.Error()}}
			}
			st.oneShot = true
			return nil
		}})
	}
	if st.active {
		out = append(out, opx{label: "dropTrigger", run: func() []eng.Violation {
			for _, name := range []string{fmt.Sprintf("trig%d", st.created), fmt.Sprintf("trig%db", st.created)} {
				if err := w.C.DropTrigger(name); err != nil {
					return []eng.Violation{{Assert: "droptrigger", Witness: "DropTrigger failed", Detail: err.Error()}}
				}
			}
			st.active = false
			return nil
		}})
	} else {
		out = append(out, opx{label: "createTrigger(on v)", run: func() []eng.Violation {
			st.created++
			if err := w.C.CreateTrigger(fmt.Sprintf("trig%d", st.created), "v", st.callback); err != nil {
				return []eng.Violation{{Assert: "createtrigger", Witness: "CreateTrigger failed", Detail: err.Error()}}
			}
			if err := w.C.CreateTrigger(fmt.Sprintf("trig%db", st.created), "v", st.callback2); err != nil {
				return []eng.Violation{{Assert: "createtrigger", Witness: "CreateTrigger failed", Detail: err.Error()}}
			}
			st.active = true
			return nil
		}})
	}
	return out
}

func init() {
	eng.Register(&eng.Check{
		Prop:  "C19",
		Level: "model_checking",
		Rule: "every history up to depth d over {insert with/without the watched column, overwrite, two overwrites of one row in one transaction, write to another column, merge, put+merge, " +
			"merge+put, merge-on-insert, merge that leaves the value as it is (alone and after a put), delete, multi-row/multi-block writes, delete+write, the same ending in error, createTrigger, dropTrigger, a sibling trigger that drops itself from its first callback} for watched kinds int, string and record (concatenating " +
			"merge) and bool; after every transaction the log of the trigger (and of a second, identical trigger registered after it) equals the model's committed stores (offset, final value) and row deletions as a multiset, in issue order per row; " +
			"states = distinct (model state, trigger active); non-trivial = trigger active",
		Assumptions: []string{"for a bool column a store of false and a row deletion are indistinguishable to the callback and are compared as the same event"},
		Budget:      budget(170*time.Second, 28*time.Minute),
		Bounds: func(tier string) map[string]any {
			if tier == "quick" {
				return map[string]any{"depth": "5 (empty), 4 (sparse-3)", "kinds": []string{"int", "string", "bool", "record (empty, depth 4)"}}
			}
			return map[string]any{"depth": "6 (empty), 5 (sparse-3), 3 (block-edge)", "kinds": []string{"int", "string", "bool", "record"}}
		},
		Units: func(tier string) (units []eng.Unit) {
			for _, kd := range []string{"int", "string", "bool", "record"} {
				specs := []c19Spec{{kd, "empty", 5}, {kd, "sparse-3", 4}}
				if kd == "record" {
					specs = []c19Spec{{kd, "empty", 4}}
				}
				if tier != "quick" {
					specs = []c19Spec{{kd, "empty", 6}, {kd, "sparse-3", 5}, {kd, "block-edge", 3}}
				}
				for _, s := range specs {
					s := s
					units = append(units, &eng.SeqSpec{UnitName: s.name(), Prop: "C19", Depth: s.depth, Split: 2, New: s.newState})
				}
			}
			return units
		},
	})
}
