package props

import (
	"fmt"
	"sort"
	"strings"

	"colverif/eng"
	"colverif/model"
	"colverif/vsched"

	"github.com/kelindar/column"
)

// ---------------------------------------------------------------------------
// Shared pieces of the SCHED scenarios: a world seeded in two blocks, threads that
// run one transaction each, a trigger that witnesses the apply order, and helpers
// for oracles.
// ---------------------------------------------------------------------------

const (
	R0 = uint32(3)         // seeded row in block 0
	R1 = uint32(16384 + 1) // seeded row in block 1
)

// sthread is one driver thread: a single transaction.
type sthread struct {
	name  string
	acts  []model.Act
	fail  bool
	p     model.Pending
	res   model.TxnRes
	err   error
	start int // logical clock when Query was called
	end   int // logical clock when Query returned
	done  bool
	panic any
}

func (t *sthread) body(w *model.World) func() {
	return func() {
		t.start = vsched.Steps()
		t.err = w.C.Query(w.Body(t.acts, t.fail, &t.p, &t.res))
		t.end = vsched.Steps()
		t.done = true
	}
}

// applyEvent is one trigger callback: which thread's commit stored what where.
type applyEvent struct {
	thread int
	off    uint32
	del    bool
	val    model.Val
}

// sworld is a world prepared for a SCHED scenario.
type sworld struct {
	w       *model.World
	threads []*sthread
	applied map[string][]applyEvent // watched column -> apply order
}

// newSWorld builds a world with the given columns, seeds R0 and R1 with the seed
// writes and installs apply-order triggers on the watched columns.
func newSWorld(cfg model.Config, seed []model.Write, watch ...string) *sworld {
	if cfg.Logger == "" {
		cfg.Logger = "codec"
	}
	sw := &sworld{w: model.NewWorld(cfg), applied: map[string][]applyEvent{}}
	sw.w.Sched = true
	if seed != nil {
		sw.w.SeedReplay(map[uint32][]model.Write{R0: seed, R1: seed})
	}
	for _, col := range watch {
		col := col
		k := sw.w.M.Col(col)
		sw.w.C.CreateTrigger("watch:"+col, col, func(r column.Reader) {
			e := applyEvent{thread: vsched.Self(), off: r.Index(), del: r.IsDelete()}
			if e.thread < 0 {
				return // set-up, outside the exploration
			}
			if !e.del {
				switch {
				case k.IsBool:
					if r.Bool() {
						e.val.N = 1
					}
				case k.Numeric && k.Float:
					e.val = anyVal(k, r.Float())
				case k.Numeric && k.Signed:
					e.val.N = uint64(int64(r.Int()))
					if k.Bits == 16 {
						e.val.N = uint64(int64(int16(r.Uint())))
					}
				case k.Numeric:
					e.val.N = uint64(r.Uint())
				default:
					e.val.S = strings.Clone(r.String())
				}
			}
			sw.applied[col] = append(sw.applied[col], e)
		})
	}
	// start from a non-initial state of the transaction pool: one transaction that
	// failed and one that only read have been through it
	sw.w.C.Query(func(txn *column.Txn) error {
		// ... after buffering an overwrite of R0 with other values and the deletion of R1:
		// a transaction that gives up leaves nothing behind, in the collection or in the pool
		if seed != nil {
			txn.QueryAt(R0, func(r column.Row) error {
				for _, x := range seed {
					k := sw.w.M.Col(x.Col)
					k.Set(r, x.Col, k.Values[len(k.Values)-1])
					if k.Merge != nil && len(k.Deltas) > 0 {
						k.Merge(r, x.Col, k.Deltas[0])
					}
				}
				return nil
			})
			txn.DeleteAt(R1)
		}
		return fmt.Errorf("verif: warm-up transaction gives up")
	})
	sw.w.C.Query(func(txn *column.Txn) error { txn.Count(); return nil })
	// commits emitted while seeding are not part of the scenario
	sw.w.Commits = nil
	return sw
}

func anyVal(k *model.KindDesc, f float64) model.Val {
	if k.Bits == 32 {
		v, _ := k.FromAny(float32(f))
		return v
	}
	v, _ := k.FromAny(f)
	return v
}

func (sw *sworld) add(name string, acts []model.Act, fail bool) *sthread {
	t := &sthread{name: name, acts: acts, fail: fail}
	sw.threads = append(sw.threads, t)
	return t
}

func (sw *sworld) bodies() []func() {
	out := make([]func(), len(sw.threads))
	for i, t := range sw.threads {
		out[i] = t.body(sw.w)
	}
	return out
}

// read returns the committed value of (off, col) through the public API.
func (sw *sworld) read(off uint32, col string) (model.Val, bool) {
	var v model.Val
	var ok bool
	k := sw.w.M.Col(col)
	sw.w.C.QueryAt(off, func(r column.Row) error {
		v, ok = k.Read(r, col)
		return nil
	})
	return v, ok
}

// panics collects thread panics as violations (a panic in a thread is a violation
// of whatever property the scenario serves: none of them allows it).
func threadPanics(res *vsched.Result, names []string) (vs []eng.Violation) {
	for i, p := range res.Panics {
		if p != nil {
			n := fmt.Sprintf("t%d", i)
			if i < len(names) {
				n = names[i]
			}
			vs = append(vs, eng.Violation{Assert: "no-panic", Witness: "panic in thread " + n, Detail: fmt.Sprintf("thread %s panicked: %v", n, p)})
		}
	}
	return vs
}

func (sw *sworld) names() []string {
	out := make([]string, len(sw.threads))
	for i, t := range sw.threads {
		out[i] = t.name
	}
	return out
}

// orderOf renders the apply order of a column at one row as thread names.
func (sw *sworld) orderOf(col string, off uint32) string {
	var parts []string
	for _, e := range sw.applied[col] {
		if e.off == off {
			if e.thread < 0 || e.thread >= len(sw.threads) {
				parts = append(parts, fmt.Sprintf("thread#%d", e.thread))
				continue
			}
			parts = append(parts, sw.threads[e.thread].name)
		}
	}
	return strings.Join(parts, ">")
}

func sortedKeys(m map[string]bool) []string {
	out := make([]string, 0, len(m))
	for k := range m {
		out = append(out, k)
	}
	sort.Strings(out)
	return out
}

// schedUnits wraps scenario constructors into units.
type scenario struct {
	name  string
	bound int
	mk    func() *eng.SchedInstance
}

func schedUnits(prop string, scs []scenario) (units []eng.Unit) {
	for _, sc := range scs {
		sc := sc
		units = append(units, &eng.SchedSpec{UnitName: "sched/" + sc.name, Prop: prop, Bound: sc.bound, Split: true, New: sc.mk})
	}
	return units
}

// dumpState renders everything observable of a collection through the public API:
// Count, live offsets, every column of every row, index membership, key lookups.
func dumpState(w *model.World) string {
	var sb strings.Builder
	fmt.Fprintf(&sb, "count=%d rows:", w.C.Count())
	w.C.Query(func(txn *column.Txn) error {
		return txn.Range(func(idx uint32) {
			fmt.Fprintf(&sb, " %d{", idx)
			for _, c := range w.M.Cols {
				k := w.M.Col(c.Name)
				if v, ok := k.ReadTxn(txn, c.Name); ok {
					fmt.Fprintf(&sb, "%s=%s ", c.Name, k.Show(v))
				}
			}
			if v, ok := model.Kinds["int64"].ReadTxn(txn, model.ExpireCol); ok {
				fmt.Fprintf(&sb, "expire=%d ", int64(v.N))
			}
			sb.WriteString("}")
		})
	})
	for _, ix := range w.M.Indexes {
		fmt.Fprintf(&sb, " idx[%s]:", ix.Name)
		w.C.Query(func(txn *column.Txn) error {
			return txn.With(ix.Name).Range(func(idx uint32) { fmt.Fprintf(&sb, "%d,", idx) })
		})
	}
	if w.M.KeyCol != "" {
		for _, key := range []string{"k", "j", "s0", "s1", "a", "b"} {
			w.C.QueryKey(key, func(r column.Row) error {
				fmt.Fprintf(&sb, " key[%s]->%d", key, r.Index())
				return nil
			})
		}
	}
	return sb.String()
}
