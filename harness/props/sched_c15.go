package props

import (
	"bytes"
	"fmt"

	"colverif/eng"
	"colverif/model"
	"colverif/vsched"

	"github.com/kelindar/column/commit"
)

// ---------------------------------------------------------------------------
// SCHED scenarios shared by C06 (replica converges) and C15 (stream exactly-once,
// per-block ordered, identifiable): 2-3 concurrent writers on rows R0 (block 0) and
// R1 (block 1); the logger records inside Append, i.e. under the block latch.
// ---------------------------------------------------------------------------

type writersScenario struct {
	name    string
	snap    bool // a snapshot runs beside the writers (its recorder is a second sink)
	keyed   bool
	clone   bool // the logger records Commit.Clone() (what commit.Channel sends) instead of the codec round trip
	threads [][]model.Act
	fails   []bool
}

func writersScenarios() []writersScenario {
	V := func(n uint64) model.Val { return model.Val{N: n} }
	S := func(x string) model.Val { return model.Val{S: x} }
	put := func(off uint32, ws ...model.Write) model.Act { return model.Act{Op: "put", Off: off, W: ws} }
	a := func(v model.Val, merge bool) model.Write { return model.Write{Col: "a", V: v, Merge: merge} }
	b := func(v model.Val) model.Write { return model.Write{Col: "b", V: v} }
	s := func(v model.Val, merge bool) model.Write { return model.Write{Col: "s", V: v, Merge: merge} }
	return []writersScenario{
		{name: "merge-both-blocks||put+delete", threads: [][]model.Act{
			{put(R0, a(V(1), true)), put(R1, a(V(1), true))},
			{put(R0, a(V(10), false), b(V(1))), {Op: "del", Off: R1}}}},
		{name: "merge-both-blocks||put||snapshot", snap: true, threads: [][]model.Act{
			{put(R0, a(V(1), true)), put(R1, a(V(1), true))},
			{put(R0, a(V(10), false), b(V(1)))}}},
		{name: "put-a+b||put-a||merge-s", threads: [][]model.Act{
			{put(R0, a(V(7), false), b(V(1)))},
			{put(R0, a(V(5), false))},
			{put(R0, s(S("x"), true))}}},
		{name: "insert||insert||merge", threads: [][]model.Act{
			{{Op: "insert", W: []model.Write{a(V(7), false)}}},
			{{Op: "insert", W: []model.Write{a(V(8), false), s(S("n"), false)}}},
			{put(R0, a(V(1), true))}}},
		{name: "commit||rollback||failing-insert", threads: [][]model.Act{
			{put(R0, a(V(2), true)), put(R1, b(V(1)))},
			{put(R0, a(V(99), false)), {Op: "insert", W: []model.Write{a(V(9), false)}}},
			{{Op: "insert", W: []model.Write{a(V(3), false)}, FailCb: true}}}, fails: []bool{false, true, false}},
		{name: "keyed/upsert||upsert-other||delete", keyed: true, threads: [][]model.Act{
			{{Op: "upsertkey", Key: "k", W: []model.Write{a(V(1), true)}}},
			{{Op: "upsertkey", Key: "j", W: []model.Write{a(V(5), false)}}},
			{{Op: "deletekey", Key: "s1"}}}},
	}
}

func (ws writersScenario) instance(prop string) func() *eng.SchedInstance {
	return func() *eng.SchedInstance {
		cols := []model.ColDef{{Name: "a", Kind: "int"}, {Name: "b", Kind: "int"}, {Name: "s", Kind: "string"}}
		var sw *sworld
		if ws.keyed {
			cols = append([]model.ColDef{{Name: "key", Kind: "key"}}, cols...)
			sw = newSWorld(model.Config{Cols: cols, Indexes: nil}, nil, "a")
			sw.w.SeedReplay(map[uint32][]model.Write{
				R0: {{Col: "key", V: model.Val{S: "s0"}}, {Col: "a", V: model.Val{N: 2}}},
				R1: {{Col: "key", V: model.Val{S: "s1"}}, {Col: "a", V: model.Val{N: 2}}}})
			sw.w.Commits = nil
			sw.applied = map[string][]applyEvent{}
		} else {
			logger := ""
			if ws.clone {
				logger = "clone"
			}
			sw = newSWorld(model.Config{Cols: cols, Logger: logger}, []model.Write{{Col: "a", V: model.Val{N: 2}}, {Col: "b", V: model.Val{N: 0}}, {Col: "s", V: model.Val{S: "s"}}}, "a")
			sw.w.C.CreateIndex("a>5", "a", func(r columnReader) bool { return r.Int() > 5 })
			sw.w.M.Indexes = append(sw.w.M.Indexes, &model.IndexDef{Name: "a>5", Col: "a", Pred: func(v model.Val) bool { return int64(v.N) > 5 },
				Rule: func(r columnReader) bool { return r.Int() > 5 }})
		}
		for i, acts := range ws.threads {
			fail := false
			if i < len(ws.fails) {
				fail = ws.fails[i]
			}
			sw.add(fmt.Sprintf("W%d", i+1), acts, fail)
		}
		// which thread emitted which commit: recorded by wrapping the recorder is not
		// possible from outside, so the emitting thread is inferred from the apply order
		bodies := sw.bodies()
		if ws.snap {
			bodies = append(bodies, func() { var b bytes.Buffer; sw.w.C.Snapshot(&b) })
		}
		return &eng.SchedInstance{
			Threads: bodies,
			Close:   sw.w.Close,
			Check: func(res *vsched.Result) (string, []eng.Violation) {
				vs := threadPanics(res, append(sw.names(), "S"))
				w := sw.w
				outcome := ""
				if prop == "C15" {
					vs = append(vs, streamOracle(sw, &outcome)...)
				} else {
					vs = append(vs, replicaOracle(sw, &outcome)...)
				}
				_ = w
				return outcome, vs
			},
		}
	}
}

// streamOracle (C15): exactly one commit per (committed transaction, changed
// block); none for rolled-back ones; IDs non-zero and distinct; per block IDs
// increase in emission order.
func streamOracle(sw *sworld, outcome *string) (vs []eng.Violation) {
	w := sw.w
	if err := w.RecErr(); err != nil {
		return []eng.Violation{{Assert: "stream/logger-error", Witness: "logger round trip failed", Detail: err.Error()}}
	}
	want := map[uint32]int{}
	for _, t := range sw.threads {
		if t.err != nil || !t.done {
			continue
		}
		for _, blk := range pendingBlocks(&t.p) {
			want[blk]++
		}
	}
	got := map[uint32]int{}
	last := map[commit.Chunk]uint64{}
	seen := map[uint64]bool{}
	order := ""
	for _, c := range w.Commits {
		got[uint32(c.Chunk)]++
		order += fmt.Sprintf("b%d ", c.Chunk)
		if c.ID == 0 {
			vs = append(vs, eng.Violation{Assert: "stream/id-nonzero", Witness: "commit with ID 0", Detail: fmt.Sprintf("commit for block %d has ID 0", c.Chunk)})
		}
		if seen[c.ID] {
			vs = append(vs, eng.Violation{Assert: "stream/id-distinct", Witness: "two commits share an ID", Detail: fmt.Sprintf("ID %d emitted twice", c.ID)})
		}
		seen[c.ID] = true
		if prev, ok := last[c.Chunk]; ok && c.ID <= prev {
			vs = append(vs, eng.Violation{Assert: "stream/id-order", Witness: "IDs of one block do not increase in the order the commits were applied and logged",
				Detail: fmt.Sprintf("block %d: a commit with ID +%d reached the logger after one with ID +%d (IDs relative to the first of the run)", c.Chunk, rel(w, c.ID), rel(w, prev))})
		}
		last[c.Chunk] = c.ID
	}
	*outcome = "emitted: " + order
	if fmt.Sprint(got) != fmt.Sprint(want) {
		vs = append(vs, eng.Violation{Assert: "stream/exactly-once", Witness: "emitted commits differ from the blocks changed by the committed transactions",
			Detail: fmt.Sprintf("commits per block %v, committed transactions changed blocks %v", got, want)})
	}
	// logger order = apply order, per block (the trigger on column a fires inside the
	// apply; commits that touch column a carry a Put for it)
	for _, blk := range []uint32{0, 1} {
		var logged, applied []string
		for _, c := range w.Commits {
			if uint32(c.Chunk) != blk {
				continue
			}
			for _, u := range c.Updates {
				if u.Column != "a" {
					continue
				}
				recs, _ := readChunk(u, c.Chunk)
				for _, r := range recs {
					if r.op == commit.Put {
						logged = append(logged, fmt.Sprintf("%d=%x", r.off, r.val))
					}
				}
			}
		}
		for _, e := range sw.applied["a"] {
			if e.off>>14 == blk && !e.del {
				applied = append(applied, fmt.Sprintf("%d=%016x", e.off, e.val.N))
			}
		}
		if fmt.Sprint(logged) != fmt.Sprint(applied) {
			vs = append(vs, eng.Violation{Assert: "stream/order-is-apply-order", Witness: "commits of one block reach the logger in another order than they were applied",
				Detail: fmt.Sprintf("block %d: stores to column a applied as %v, logged as %v", blk, applied, logged)})
		}
	}
	return vs
}

func rel(w *model.World, id uint64) int64 {
	min := id
	for _, c := range w.Commits {
		if c.ID < min {
			min = c.ID
		}
	}
	return int64(id - min)
}

func pendingBlocks(p *model.Pending) []uint32 { return model.PendingBlocks(p) }

// replicaOracle (C06): replaying the recorded stream in emission order into a
// fresh collection gives the primary's state (compared row by row through the
// public API, without a model: the primary IS the reference here).
func replicaOracle(sw *sworld, outcome *string) (vs []eng.Violation) {
	w := sw.w
	if err := w.RecErr(); err != nil {
		return []eng.Violation{{Assert: "stream/logger-error", Witness: "logger round trip failed", Detail: err.Error()}}
	}
	t := w.Twin(model.Config{}, true)
	defer t.Close()
	// the twin must start from the seeded state: seed it the same way
	seed := map[uint32][]model.Write{}
	for off, r := range w.M.Live {
		var ws []model.Write
		for _, c := range w.M.Cols {
			if v, ok := r.V[c.Name]; ok {
				ws = append(ws, model.Write{Col: c.Name, V: v})
			}
		}
		seed[off] = ws
	}
	t.M = w.M.Clone()
	t.SeedReplay(seed)
	func() {
		defer func() {
			if r := recover(); r != nil {
				vs = append(vs, eng.Violation{Assert: "no-panic@replica", Witness: "panic while replaying", Detail: fmt.Sprint(r)})
			}
		}()
		if err := w.ReplayInto(t, 0); err != nil {
			vs = append(vs, eng.Violation{Assert: "error@replica", Witness: "Replay failed", Detail: err.Error()})
		}
	}()
	if len(vs) > 0 {
		return vs
	}
	ps, rs := dumpState(w), dumpState(t)
	*outcome = ps
	if ps != rs {
		vs = append(vs, eng.Violation{Assert: "replica/converges", Witness: "replica fed the stream differs from the quiescent primary",
			Detail: fmt.Sprintf("primary  %s\nreplica  %s", ps, rs)})
	}
	return vs
}
