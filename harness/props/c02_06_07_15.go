package props

import (
	"time"

	"colverif/eng"
)

var (
	c02SchedUnits = func(tier string) []eng.Unit { return nil }
	c06SchedUnits = func(tier string) []eng.Unit { return writersUnits("C06", tier) }
	c15SchedUnits = func(tier string) []eng.Unit { return writersUnits("C15", tier) }
)

func init() {
	// ------------------------------------------------------------------ C02
	eng.Register(&eng.Check{
		Prop:  "C02",
		Level: "model_checking",
		Rule: "SEQ (differential): every history up to depth d over committing and rolling-back transactions (successful inserts, failing insert callbacks, updates, merges, deletes, key " +
			"operations, single- and multi-block); a shadow collection runs only the committing ones. Oracle at every node: the collection equals the model (rows, values, indexes, key lookups, " +
			"Count), the shadow equals it too, every later insert returns the same offsets on both, a rolled-back transaction emits no commit, and reads inside a body after a write return the " +
			"committed value. SCHED: a writer with yields between its buffered changes beside an observer / a snapshot at every scheduling point; observations taken while the writer is inside its " +
			"callback equal the pre-state, after Query returned the post-state (commit) or pre-state (rollback)",
		Assumptions: []string{
			"not judged: a transaction that swallows a failing insert's error and commits; observations that overlap the commit loop of a multi-block commit (per-block by design)",
		},
		Budget: budget(170*time.Second, 28*time.Minute),
		Bounds: func(tier string) map[string]any {
			if tier == "quick" {
				return map[string]any{"seq_depth": "4 (mixed schema: empty, two-blocks; keyed: empty), 3 (keyed two-blocks)", "preemption_bound": 2}
			}
			return map[string]any{"seq_depth": "5 (mixed, keyed), 4 (keyed two-blocks)", "preemption_bound": 3}
		},
		Units: func(tier string) []eng.Unit {
			d := 4
			if tier != "quick" {
				d = 5
			}
			return append(genUnits([]genSpec{
				{prop: "C02", logger: "codec", preset: "empty", depth: d, shadow: true, rich: tier != "quick"},
				{prop: "C02", logger: "codec", preset: "two-blocks", depth: d, shadow: true},
				{prop: "C02", keyed: true, logger: "codec", preset: "empty", depth: d, shadow: true},
				{prop: "C02", keyed: true, logger: "codec", preset: "two-blocks", depth: d - 1, shadow: true},
			}), c02SchedUnits(tier)...)
		},
	})

	// ------------------------------------------------------------------ C06
	eng.Register(&eng.Check{
		Prop:  "C06",
		Level: "model_checking",
		Rule: "SEQ: every history up to depth d over the general alphabet (all column kinds, indexes, offset reuse, merges, multi-block and rolled-back transactions; keyed variant) with a " +
			"recording logger in three variants (commit.Channel = clone path, Commit.WriteTo/ReadFrom, commit.Log over s2); at every node all emitted commits are replayed in emission order into a " +
			"fresh collection with the same schema, which must equal the model (rows, values, indexes, key lookups, Count). SCHED: every interleaving (preemption-bounded) of 2-3 concurrent writers " +
			"on rows in two blocks; the replica fed the recorded stream must equal the primary at quiescence",
		Assumptions: []string{"the logger records inside Append (under the block latch), deep-copying the commit"},
		Budget:      budget(170*time.Second, 28*time.Minute),
		Bounds: func(tier string) map[string]any {
			if tier == "quick" {
				return map[string]any{"seq_depth": "4 (codec, channel), 3 (log, keyed two-blocks)", "preemption_bound": 2}
			}
			return map[string]any{"seq_depth": "5 (codec, channel), 4 (log)", "preemption_bound": 3}
		},
		Units: func(tier string) []eng.Unit {
			d := 4
			if tier != "quick" {
				d = 5
			}
			return append(genUnits([]genSpec{
				{prop: "C06", logger: "codec", preset: "empty", depth: d, replica: true, rich: true},
				{prop: "C06", logger: "channel", preset: "two-blocks", depth: d, replica: true, rich: tier != "quick"},
				{prop: "C06", logger: "log", preset: "two-blocks", depth: d - 1, replica: true, rich: true, comp: true},
				{prop: "C06", keyed: true, logger: "channel", preset: "empty", depth: d, replica: true, comp: true},
				{prop: "C06", keyed: true, logger: "codec", preset: "two-blocks", depth: d - 1, replica: true},
			}), c06SchedUnits(tier)...)
		},
	})

	// ------------------------------------------------------------------ C07
	eng.Register(&eng.Check{
		Prop:  "C07",
		Level: "model_checking",
		Rule: "SEQ (differential): every history up to depth d over the general alphabet plus the letter 'snapshot, restore into a fresh collection of capacity c (indexes created first) and " +
			"CONTINUE on the restored collection' for c in {1, 64, 1024, 20000}; a unit with one column of every kind and the per-kind value alphabets (zero, negative numbers of every width, NaN, -0, empty strings); schemas with bitmap indexes only and with a sorted index and a trigger besides; at every node rows, offsets, values of all column kinds (incl. enum, bool, record, key, expire), indexes (bitmap: selection = predicate; sorted: Ascend complete and ordered), key " +
			"lookups and Count equal the model; later inserts must return offsets of no live row; repeated restore letters give second- and third-generation snapshots",
		Assumptions: []string{"the target collection has the same schema and the same index definitions, created before Restore"},
		Budget:      budget(170*time.Second, 28*time.Minute),
		Bounds: func(tier string) map[string]any {
			if tier == "quick" {
				return map[string]any{"depth": "4 (mixed empty, keyed), 3 (sparse-3), 2 (block-edge)", "target_capacities": []int{1, 64, 1024, 20000}}
			}
			return map[string]any{"depth": "5 (mixed empty, keyed), 4 (sparse-3), 3 (block-edge)", "target_capacities": []int{1, 64, 1024, 20000}}
		},
		Units: func(tier string) []eng.Unit {
			caps := []int{1, 64, 1024, 20000}
			if tier == "quick" {
				return append(c07KindsUnits(tier), genUnits([]genSpec{
					{prop: "C07", logger: "", preset: "empty", depth: 4, restore: caps},
					{prop: "C07", logger: "", preset: "sparse-3", depth: 3, restore: caps[:2], comp: true},
					{prop: "C07", logger: "", preset: "block-edge", depth: 2, restore: caps[1:3], comp: true},
					{prop: "C07", keyed: true, logger: "", preset: "two-blocks", depth: 4, restore: caps[1:3], comp: true},
				})...)
			}
			return append(c07KindsUnits(tier), genUnits([]genSpec{
				{prop: "C07", logger: "", preset: "empty", depth: 5, restore: caps, rich: true},
				{prop: "C07", logger: "", preset: "sparse-3", depth: 4, restore: caps[:2], comp: true},
				{prop: "C07", logger: "", preset: "block-edge", depth: 3, restore: caps[1:3], comp: true},
				{prop: "C07", keyed: true, logger: "", preset: "two-blocks", depth: 5, restore: caps[1:3], comp: true},
				{prop: "C07", keyed: true, logger: "", preset: "empty", depth: 5, restore: caps[:2]},
				{prop: "C07", logger: "", preset: "empty", depth: 4, restore: caps[1:3], comp: true},
			})...)
		},
	})

	// ------------------------------------------------------------------ C15
	eng.Register(&eng.Check{
		Prop:  "C15",
		Level: "model_checking",
		Rule: "SEQ: every history up to depth d over the general alphabet (single/multi-block, read-only, rolled-back, failing-insert transactions) with a recording logger (Channel and codec " +
			"variants); after every transaction: exactly one commit per block in which it buffered an operation, none if it rolled back or changed nothing; over the whole stream: IDs non-zero, " +
			"pairwise distinct, increasing per block in emission order. SCHED: every interleaving (preemption-bounded) of concurrent writers; additionally per block the logger order equals the " +
			"apply order witnessed by a trigger, and IDs increase along it",
		Assumptions: []string{"'changed' = buffered at least one operation for an existing column or a row marker in that block (a store of an equal value counts as a change)"},
		Budget:      budget(170*time.Second, 28*time.Minute),
		Bounds: func(tier string) map[string]any {
			if tier == "quick" {
				return map[string]any{"seq_depth": 4, "preemption_bound": 2}
			}
			return map[string]any{"seq_depth": 5, "preemption_bound": 3}
		},
		Units: func(tier string) []eng.Unit {
			d := 4
			if tier != "quick" {
				d = 5
			}
			return append(genUnits([]genSpec{
				{prop: "C15", logger: "channel", preset: "empty", depth: d, stream: true, rich: true},
				{prop: "C15", logger: "codec", preset: "two-blocks", depth: d, stream: true, rich: true},
				{prop: "C15", keyed: true, logger: "channel", preset: "two-blocks", depth: d, stream: true},
			}), c15SchedUnits(tier)...)
		},
	})
}

func writersUnits(prop, tier string) []eng.Unit {
	var scs []scenario
	all := writersScenarios()
	if prop == "C06" {
		// the channel logger's view of the same stream (cloned buffers) for the scenarios
		// with a multi-block transaction
		for _, ws := range writersScenarios() {
			if ws.name == "merge-both-blocks||put+delete" || ws.name == "commit||rollback||failing-insert" {
				ws.clone = true
				ws.name = "channel/" + ws.name
				all = append(all, ws)
			}
		}
	}
	for _, ws := range all {
		b := 2
		if len(ws.threads) == 2 && !ws.snap {
			b = 3
		}
		if tier != "quick" {
			b++
		}
		scs = append(scs, scenario{ws.name, b, ws.instance(prop)})
	}
	return schedUnits(prop, scs)
}
