package props

import (
	"bytes"
	"fmt"
	"os"
	"path/filepath"
	"sort"
	"strings"
	"time"

	"colverif/eng"

	"github.com/kelindar/column/commit"
)

// ---------------------------------------------------------------------------
// C05 — commit buffers, commits and logs round-trip every operation sequence.
//
// Pure data: no collection is involved. Every sequence of length <= L over the
// alphabet (operation kind x offset move) is written to a real commit.Buffer and
// read back through every path the library offers; the oracle is the literal list
// of (kind, offset, bytes) that was written.
// ---------------------------------------------------------------------------

type c05Kind struct {
	name    string
	op      commit.OpType
	width   int    // 0, 2, 4, 8 or -1 (variable-length bytes)
	payload []byte // what is written (big endian for fixed widths)
	result  []byte // for merges: the merged result a column would swap in
}

type c05Op struct {
	kind int
	off  uint32
}

type c05Rec struct {
	op  commit.OpType
	off int32
	val string
}

func (r c05Rec) String() string {
	v := r.val
	if len(v) > 12 {
		v = fmt.Sprintf("%x..(%d bytes)", v[:6], len(v))
	} else {
		v = fmt.Sprintf("%x", v)
	}
	return fmt.Sprintf("%s@%d=%s", r.op, r.off, v)
}

var c05Moves = []int64{0, 1, 2, 127, 128, 16383, 16384, 3 * 16384, -1, -130, -1 << 40 /* back to block 0: absolute offset 5 */}
var c05MoveNames = []string{"same", "+1", "+2", "+127", "+128", "+16383", "+16384", "+3blocks", "-1", "-130", "->5"}

func pat(n int, seed byte) []byte {
	b := make([]byte, n)
	for i := range b {
		b[i] = seed + byte(i*7)
	}
	return b
}

func c05Kinds(lengths []int) []c05Kind {
	ks := []c05Kind{
		{name: "delete", op: commit.Delete, width: 0},
		{name: "insert", op: commit.Insert, width: 0},
		{name: "puttrue", op: commit.PutTrue, width: 0},
		{name: "put64", op: commit.Put, width: 8, payload: []byte{0x80, 1, 2, 3, 4, 5, 6, 0xff}},
		{name: "merge64", op: commit.Merge, width: 8, payload: []byte{0, 0, 0, 0, 0, 0, 0, 9}, result: []byte{0xff, 0xfe, 0, 0, 0, 0, 1, 2}},
		{name: "put32", op: commit.Put, width: 4, payload: []byte{0x80, 0, 0, 1}},
		{name: "merge32", op: commit.Merge, width: 4, payload: []byte{0, 0, 1, 0}, result: []byte{0x7f, 0xff, 0xff, 0xff}},
		{name: "put16", op: commit.Put, width: 2, payload: []byte{0xff, 0xfe}},
		{name: "merge16", op: commit.Merge, width: 2, payload: []byte{0, 3}, result: []byte{0x80, 0}},
	}
	for _, n := range lengths {
		ks = append(ks, c05Kind{name: fmt.Sprintf("putbytes%d", n), op: commit.Put, width: -1, payload: pat(n, 0x41)})
		ks = append(ks, c05Kind{name: fmt.Sprintf("mergebytes%d=", n), op: commit.Merge, width: -1, payload: pat(n, 0x61), result: pat(n, 0x30)})
		if n < 65535 {
			ks = append(ks, c05Kind{name: fmt.Sprintf("mergebytes%d+", n), op: commit.Merge, width: -1, payload: pat(n, 0x62), result: pat(n+1, 0x31)})
		}
		if n > 0 {
			ks = append(ks, c05Kind{name: fmt.Sprintf("mergebytes%d-", n), op: commit.Merge, width: -1, payload: pat(n, 0x63), result: pat(n-1, 0x32)})
		}
	}
	return ks
}

type c05Spec struct {
	kinds []c05Kind
	L     int
	log   bool // also round-trip commits through a Log (batched per work item)
	file  bool // ... over a real file
	logq  []c05Logged
	count int64 // sequences checked
}

func (s *c05Spec) alphabet() int { return len(s.kinds) * len(c05Moves) }

// next returns the operation for alphabet index a after an op at offset last.
func (s *c05Spec) next(a int, last int64) (c05Op, bool) {
	k, m := a/len(c05Moves), a%len(c05Moves)
	off := last + c05Moves[m]
	if c05Moves[m] == -1<<40 {
		off = 5
	}
	if off < 0 || off >= 6*16384 {
		return c05Op{}, false
	}
	return c05Op{kind: k, off: uint32(off)}, true
}

func (s *c05Spec) label(seq []c05Op) string {
	var sb strings.Builder
	for i, o := range seq {
		if i > 0 {
			sb.WriteString(" ")
		}
		fmt.Fprintf(&sb, "%s@%d", s.kinds[o.kind].name, o.off)
	}
	return sb.String()
}

func (s *c05Spec) write(seq []c05Op) *commit.Buffer {
	b := commit.NewBuffer(64)
	b.Reset("col")
	s.writeInto(b, seq)
	return b
}

// used returns a buffer that already carried another sequence (two blocks, ending
// on a high offset), as the pooled buffers of transactions and the scratch buffer of
// CreateIndex do.
func (s *c05Spec) used() *commit.Buffer {
	b := commit.NewBuffer(64)
	b.Reset("old")
	b.PutUint64(commit.Put, 5000, 0x0102030405060708)
	b.PutBytes(commit.Merge, 5001, []byte("previous"))
	b.PutOperation(commit.Delete, 20001)
	b.PutUint16(commit.Put, 20007, 7)
	return b
}

func (s *c05Spec) writeInto(b *commit.Buffer, seq []c05Op) {
	for _, o := range seq {
		k := &s.kinds[o.kind]
		switch k.width {
		case 0:
			b.PutOperation(k.op, o.off)
		case 2:
			b.PutUint16(k.op, o.off, uint16(k.payload[0])<<8|uint16(k.payload[1]))
		case 4:
			b.PutUint32(k.op, o.off, uint32(k.payload[0])<<24|uint32(k.payload[1])<<16|uint32(k.payload[2])<<8|uint32(k.payload[3]))
		case 8:
			var v uint64
			for _, x := range k.payload {
				v = v<<8 | uint64(x)
			}
			b.PutUint64(k.op, o.off, v)
		default:
			b.PutBytes(k.op, o.off, k.payload)
		}
	}
}

func (s *c05Spec) expect(seq []c05Op, swapped bool) []c05Rec {
	out := make([]c05Rec, len(seq))
	for i, o := range seq {
		k := &s.kinds[o.kind]
		out[i] = c05Rec{op: k.op, off: int32(o.off), val: string(k.payload)}
		if swapped && k.op == commit.Merge {
			out[i] = c05Rec{op: commit.Put, off: int32(o.off), val: string(k.result)}
		}
	}
	return out
}

func readAll(r *commit.Reader, out []c05Rec) []c05Rec {
	for r.Next() {
		out = append(out, c05Rec{op: r.Type, off: r.Offset, val: string(r.Bytes())})
	}
	return out
}

func readChunk(b *commit.Buffer, c commit.Chunk) (out []c05Rec, bad string) {
	rd := commit.NewReader()
	rd.Range(b, c, func(r *commit.Reader) {
		for r.Next() {
			out = append(out, c05Rec{op: r.Type, off: r.Offset, val: string(r.Bytes())})
			if commit.ChunkAt(r.Index()) != c {
				bad = fmt.Sprintf("Range(chunk %d) delivered offset %d", c, r.Offset)
			}
			if r.IndexAtChunk() != r.Index()-c.Min() {
				bad = fmt.Sprintf("IndexAtChunk()=%d for offset %d", r.IndexAtChunk(), r.Offset)
			}
		}
	})
	return
}

func filterChunk(recs []c05Rec, c commit.Chunk) (out []c05Rec) {
	for _, r := range recs {
		if commit.ChunkAt(uint32(r.off)) == c {
			out = append(out, r)
		}
	}
	return
}

func sameRecs(a, b []c05Rec) bool {
	if len(a) != len(b) {
		return false
	}
	for i := range a {
		if a[i] != b[i] {
			return false
		}
	}
	return true
}

func recsStr(a []c05Rec) string {
	parts := make([]string, len(a))
	for i, r := range a {
		parts[i] = r.String()
	}
	return "[" + strings.Join(parts, " ") + "]"
}

func chunksOf(seq []c05Op) []commit.Chunk {
	m := map[commit.Chunk]bool{}
	for _, o := range seq {
		m[commit.ChunkAt(o.off)] = true
	}
	var out []commit.Chunk
	for c := range m {
		out = append(out, c)
	}
	sort.Slice(out, func(i, j int) bool { return out[i] < out[j] })
	return out
}

// perOffset drops Skip markers and groups by offset, keeping order.
func perOffset(recs []c05Rec) map[int32][]c05Rec {
	m := map[int32][]c05Rec{}
	for _, r := range recs {
		if r.op == commit.Skip {
			continue
		}
		m[r.off] = append(m[r.off], r)
	}
	return m
}

func samePerOffset(got, want []c05Rec) (int32, bool) {
	g, w := perOffset(got), perOffset(want)
	for off, ws := range w {
		if !sameRecs(g[off], ws) {
			return off, false
		}
	}
	for off := range g {
		if _, ok := w[off]; !ok {
			return off, false
		}
	}
	return 0, true
}

// checkViews checks the whole-buffer and per-block reads of b against want.
func (s *c05Spec) checkViews(view string, b *commit.Buffer, want []c05Rec, chunks []commit.Chunk, lbl string, vs *[]eng.Violation) {
	rd := commit.NewReader()
	rd.Seek(b)
	if got := readAll(rd, nil); !sameRecs(got, want) {
		*vs = append(*vs, eng.Violation{Assert: view + "/whole", Witness: "sequence read back differs",
			Detail: fmt.Sprintf("seq {%s}: wrote %s, Seek+Next read %s", lbl, recsStr(want), recsStr(got))})
	}
	for _, c := range append(chunks, 7) {
		got, bad := readChunk(b, c)
		if bad != "" {
			*vs = append(*vs, eng.Violation{Assert: view + "/block-index", Witness: "wrong index in block read", Detail: fmt.Sprintf("seq {%s}: %s", lbl, bad)})
		}
		if w := filterChunk(want, c); !sameRecs(got, w) {
			*vs = append(*vs, eng.Violation{Assert: view + "/block", Witness: "block read differs",
				Detail: fmt.Sprintf("seq {%s}: block %d holds %s, Range read %s", lbl, c, recsStr(w), recsStr(got))})
		}
	}
}

func (s *c05Spec) commitRoundTrip(view string, b *commit.Buffer, c commit.Chunk, id uint64) (commit.Commit, error) {
	other := commit.NewBuffer(8)
	other.Reset("other")
	other.PutUint16(commit.Put, c.Min()+3, 0xbeef)
	// a column of the same transaction that was written in ANOTHER block only: the
	// transaction's buffers are shared by all of its commits, each commit carries its own block
	foreign := commit.NewBuffer(8)
	foreign.Reset("foreign")
	foreign.PutUint16(commit.Put, (c+1).Min()+5, 0xf00d)
	cm := commit.Commit{ID: id, Chunk: c, Updates: []*commit.Buffer{b, other, foreign}}
	if view == "clone" {
		return cm.Clone(), nil
	}
	var w bytes.Buffer
	if _, err := cm.WriteTo(&w); err != nil {
		return commit.Commit{}, err
	}
	var out commit.Commit
	_, err := out.ReadFrom(&w)
	return out, err
}

func (s *c05Spec) checkCommit(view string, got commit.Commit, err error, c commit.Chunk, id uint64, want []c05Rec, perOff bool, lbl string, vs *[]eng.Violation) {
	if err != nil {
		*vs = append(*vs, eng.Violation{Assert: "commit-" + view + "/error", Witness: "error", Detail: fmt.Sprintf("seq {%s}: %v", lbl, err)})
		return
	}
	if got.ID != id {
		*vs = append(*vs, eng.Violation{Assert: "commit-" + view + "/id", Witness: "commit id not preserved", Detail: fmt.Sprintf("seq {%s} block %d: id %d became %d", lbl, c, id, got.ID)})
	}
	if got.Chunk != c {
		*vs = append(*vs, eng.Violation{Assert: "commit-" + view + "/block", Witness: "block number not preserved", Detail: fmt.Sprintf("seq {%s}: block %d became %d", lbl, c, got.Chunk)})
	}
	var main, other *commit.Buffer
	for _, u := range got.Updates {
		switch u.Column {
		case "col":
			main = u
		case "other":
			other = u
		case "foreign":
			// nothing of this column belongs to the commit's block
			for _, blk := range []commit.Chunk{c, c + 1} {
				if fg, _ := readChunk(u, blk); len(fg) != 0 {
					*vs = append(*vs, eng.Violation{Assert: "commit-" + view + "/foreign-block", Witness: "a commit carries operations of another block",
						Detail: fmt.Sprintf("seq {%s} commit of block %d: column written only in block %d delivers %s when block %d is read", lbl, c, c+1, recsStr(fg), blk)})
				}
			}
		}
	}
	if main == nil || other == nil || len(got.Updates) < 2 || len(got.Updates) > 3 {
		*vs = append(*vs, eng.Violation{Assert: "commit-" + view + "/buffers", Witness: "update buffers not preserved", Detail: fmt.Sprintf("seq {%s} block %d: %d buffers", lbl, c, len(got.Updates))})
		return
	}
	g, _ := readChunk(main, c)
	w := filterChunk(want, c)
	if perOff {
		if off, ok := samePerOffset(g, w); !ok {
			*vs = append(*vs, eng.Violation{Assert: "swap/commit-" + view, Witness: s.swapWitness(lbl, w, off),
				Detail: fmt.Sprintf("seq {%s} block %d after swap: expected per-offset %s, %s delivers %s", lbl, c, recsStr(w), view, recsStr(g))})
		}
	} else if !sameRecs(g, w) {
		*vs = append(*vs, eng.Violation{Assert: "commit-" + view + "/ops", Witness: "block operations differ", Detail: fmt.Sprintf("seq {%s} block %d: wrote %s, read %s", lbl, c, recsStr(w), recsStr(g))})
	}
	if og, _ := readChunk(other, c); len(og) != 1 || og[0].off != int32(c.Min()+3) || og[0].val != "\xbe\xef" {
		*vs = append(*vs, eng.Violation{Assert: "commit-" + view + "/second-buffer", Witness: "second buffer differs", Detail: fmt.Sprintf("seq {%s} block %d: %s", lbl, c, recsStr(og))})
	}
}

// swapWitness classifies a per-offset mismatch after a swap pass: the one known
// pattern is a variable-length merge whose result has another size, followed by a
// later operation on the same offset in the same block.
func (s *c05Spec) swapWitness(lbl string, want []c05Rec, off int32) string {
	return "per-offset order after swap differs"
}

func (s *c05Spec) knownSwapPattern(seq []c05Op, c commit.Chunk, off int32) bool {
	seen := false
	for _, o := range seq {
		if commit.ChunkAt(o.off) != c || int32(o.off) != off {
			continue
		}
		k := &s.kinds[o.kind]
		if seen {
			return true
		}
		if k.op == commit.Merge && k.width == -1 && len(k.result) != len(k.payload) {
			seen = true
		}
	}
	return false
}

// check runs every oracle on one sequence.
func (s *c05Spec) check(seq []c05Op, logq *[]c05Logged) (vs []eng.Violation) {
	defer func() {
		if r := recover(); r != nil {
			vs = append(vs, eng.Violation{Assert: "no-panic", Witness: "panic", Detail: fmt.Sprintf("seq {%s}: panic: %v", s.label(seq), r)})
		}
	}()
	lbl := s.label(seq)
	want := s.expect(seq, false)
	chunks := chunksOf(seq)
	b := s.write(seq)
	s.checkViews("buffer", b, want, chunks, lbl, &vs)
	s.checkViews("buffer-clone", b.Clone(), want, chunks, lbl, &vs)
	// a clone is independent of its original: the original is recycled afterwards
	orig := s.write(seq)
	cl := orig.Clone()
	orig.Reset("col")
	orig.PutUint64(commit.Put, 77777, 0xdeadbeef)
	orig.PutOperation(commit.Delete, 1)
	orig.PutBytes(commit.Put, 2, []byte("overwritten by the original's next use"))
	s.checkViews("buffer-clone-after-reuse", cl, want, chunks, lbl, &vs)
	// the same sequence on a recycled buffer (written, Reset, written again)
	rb := s.used()
	rb.Reset("col")
	s.writeInto(rb, seq)
	s.checkViews("buffer-recycled", rb, want, chunks, lbl, &vs)
	var w bytes.Buffer
	if _, err := b.WriteTo(&w); err != nil {
		vs = append(vs, eng.Violation{Assert: "buffer-codec/error", Witness: "error", Detail: err.Error()})
	} else {
		nb := commit.NewBuffer(0)
		if _, err := nb.ReadFrom(&w); err != nil {
			vs = append(vs, eng.Violation{Assert: "buffer-codec/error", Witness: "error", Detail: err.Error()})
		} else {
			if nb.Column != "col" {
				vs = append(vs, eng.Violation{Assert: "buffer-codec/column", Witness: "column name", Detail: nb.Column})
			}
			s.checkViews("buffer-codec", nb, want, chunks, lbl, &vs)
		}
	}
	// recycled on both sides of the codec: encode the recycled buffer, decode into a used one
	w.Reset()
	if _, err := rb.WriteTo(&w); err != nil {
		vs = append(vs, eng.Violation{Assert: "buffer-codec/error", Witness: "error", Detail: err.Error()})
	} else {
		nb := s.used()
		if _, err := nb.ReadFrom(&w); err != nil {
			vs = append(vs, eng.Violation{Assert: "buffer-codec/error", Witness: "error", Detail: err.Error()})
		} else {
			if nb.Column != "col" {
				vs = append(vs, eng.Violation{Assert: "buffer-codec/column", Witness: "column name", Detail: nb.Column})
			}
			s.checkViews("buffer-codec-recycled", nb, want, chunks, lbl, &vs)
		}
	}
	for _, c := range chunks {
		id := uint64(1000 + c)
		got, err := s.commitRoundTrip("codec", b, c, id)
		s.checkCommit("codec", got, err, c, id, want, false, lbl, &vs)
		got, err = s.commitRoundTrip("clone", b, c, id)
		s.checkCommit("clone", got, err, c, id, want, false, lbl, &vs)
		if logq != nil {
			*logq = append(*logq, c05Logged{cm: commit.Commit{ID: id, Chunk: c, Updates: []*commit.Buffer{b}}, want: filterChunk(want, c), lbl: lbl})
		}
	}

	// swap pass, block by block as a commit does, on a fresh buffer
	hasMerge := false
	for _, o := range seq {
		if s.kinds[o.kind].op == commit.Merge {
			hasMerge = true
		}
	}
	if !hasMerge {
		return vs
	}
	wantS := s.expect(seq, true)
	rd := commit.NewReader()
	// pass runs the swapping pass block by block, as a commit does, and then a later
	// reader; on the freshly written buffer and on what a commit codec round trip of each
	// block delivers (a replica swaps merges in buffers it has decoded)
	pass := func(view string, sb *commit.Buffer, only []commit.Chunk, roundTrip bool) {
		for _, c := range only {
			// the order in which the column sees the operations of this block, and the
			// results it swaps in
			mi := 0
			var merges []*c05Kind
			for _, o := range seq {
				if commit.ChunkAt(o.off) == c && s.kinds[o.kind].op == commit.Merge {
					merges = append(merges, &s.kinds[o.kind])
				}
			}
			var first []c05Rec
			rd.Range(sb, c, func(r *commit.Reader) {
				for r.Next() {
					if r.Type == commit.Merge && mi < len(merges) {
						k := merges[mi]
						mi++
						first = append(first, c05Rec{op: commit.Merge, off: r.Offset, val: string(r.Bytes())})
						switch k.width {
						case 2:
							r.SwapUint16(uint16(k.result[0])<<8 | uint16(k.result[1]))
						case 4:
							r.SwapUint32(uint32(k.result[0])<<24 | uint32(k.result[1])<<16 | uint32(k.result[2])<<8 | uint32(k.result[3]))
						case 8:
							var v uint64
							for _, x := range k.result {
								v = v<<8 | uint64(x)
							}
							r.SwapUint64(v)
						default:
							r.SwapBytes(append([]byte{}, k.result...))
						}
						continue
					}
					first = append(first, c05Rec{op: r.Type, off: r.Offset, val: string(r.Bytes())})
				}
			})
			if w := filterChunk(want, c); !sameRecs(first, w) {
				wit := "the swapping pass itself reads a different sequence"
				// known pattern: the pass re-reads puts it appended itself, because the block
				// has a later section in the buffer and the append went into that section
				var stripped []c05Rec
				wi := 0
				for _, r := range first {
					if wi < len(w) && r == w[wi] {
						stripped = append(stripped, r)
						wi++
						continue
					}
					appended := false
					for _, k := range merges {
						if r.op == commit.Put && k.width == -1 && len(k.result) != len(k.payload) && r.val == string(k.result) {
							appended = true
						}
					}
					if !appended {
						stripped = append(stripped, r)
					}
				}
				if sameRecs(stripped, w) {
					wit = "swapping pass re-reads the put it appended into a later section of the same block"
				}
				vs = append(vs, eng.Violation{Assert: "swap/first-pass", Witness: wit,
					Detail: fmt.Sprintf("seq {%s} block %d (%s): wrote %s, pass read %s", lbl, c, view, recsStr(w), recsStr(first))})
			}
			// later readers of this block
			got, _ := readChunk(sb, c)
			w := filterChunk(wantS, c)
			if off, ok := samePerOffset(got, w); !ok {
				wit := "per-offset order after swap differs"
				if s.knownSwapPattern(seq, c, off) {
					wit = "variable-length merge result of another size followed by a later operation on the same offset"
				}
				vs = append(vs, eng.Violation{Assert: "swap/later-reader", Witness: wit,
					Detail: fmt.Sprintf("seq {%s} block %d offset %d (%s): expected %s, second pass reads %s", lbl, c, off, view, recsStr(w), recsStr(got))})
			} else if roundTrip {
				id := uint64(2000 + c)
				g, err := s.commitRoundTrip("codec", sb, c, id)
				s.checkCommit("codec", g, err, c, id, wantS, true, lbl, &vs)
				g, err = s.commitRoundTrip("clone", sb, c, id)
				s.checkCommit("clone", g, err, c, id, wantS, true, lbl, &vs)
			}
		}
	}
	pass("fresh buffer", s.write(seq), chunks, true)
	for _, c := range chunks {
		g, err := s.commitRoundTrip("codec", s.write(seq), c, uint64(3000+c))
		if err != nil {
			continue // (reported by checkCommit above)
		}
		for _, u := range g.Updates {
			if u.Column == "col" {
				pass("buffer decoded by Commit.ReadFrom", u, []commit.Chunk{c}, false)
			}
		}
	}
	return vs
}

type c05Logged struct {
	cm   commit.Commit
	want []c05Rec
	lbl  string
}

// checkLog appends all queued commits to one Log and ranges over it.
func (s *c05Spec) checkLog(q []c05Logged, file bool) (vs []eng.Violation) {
	if len(q) == 0 {
		return nil
	}
	defer func() {
		if r := recover(); r != nil {
			vs = append(vs, eng.Violation{Assert: "no-panic", Witness: "panic", Detail: fmt.Sprintf("log of %d commits: panic: %v", len(q), r)})
		}
	}()
	var lg *commit.Log
	var name string
	if file {
		name = filepath.Join(os.TempDir(), fmt.Sprintf("c05-%d.log", time.Now().UnixNano()))
		var err error
		if lg, err = commit.OpenFile(name); err != nil {
			return []eng.Violation{{Assert: "log/error", Witness: "error", Detail: err.Error()}}
		}
		defer os.Remove(name)
		defer lg.Close()
	} else {
		lg = commit.Open(&bytes.Buffer{})
	}
	for _, e := range q {
		if err := lg.Append(e.cm); err != nil {
			return []eng.Violation{{Assert: "log/error", Witness: "error", Detail: err.Error()}}
		}
	}
	if file {
		// re-open for reading from the start
		lg.Close()
		var err error
		if lg, err = commit.OpenFile(name); err != nil {
			return []eng.Violation{{Assert: "log/error", Witness: "error", Detail: err.Error()}}
		}
	}
	i := 0
	err := lg.Range(func(c commit.Commit) error {
		if i >= len(q) {
			i++
			return nil
		}
		e := q[i]
		i++
		if c.ID != e.cm.ID || c.Chunk != e.cm.Chunk || len(c.Updates) != 1 {
			vs = append(vs, eng.Violation{Assert: "log/header", Witness: "commit header differs", Detail: fmt.Sprintf("seq {%s}: id %d block %d buffers %d, want id %d block %d", e.lbl, c.ID, c.Chunk, len(c.Updates), e.cm.ID, e.cm.Chunk)})
			return nil
		}
		if got, _ := readChunk(c.Updates[0], c.Chunk); !sameRecs(got, e.want) {
			vs = append(vs, eng.Violation{Assert: "log/ops", Witness: "block operations differ", Detail: fmt.Sprintf("seq {%s} block %d: appended %s, Range read %s", e.lbl, c.Chunk, recsStr(e.want), recsStr(got))})
		}
		return nil
	})
	if err != nil {
		vs = append(vs, eng.Violation{Assert: "log/error", Witness: "error", Detail: err.Error()})
	}
	if i != len(q) {
		vs = append(vs, eng.Violation{Assert: "log/count", Witness: "number of commits differs", Detail: fmt.Sprintf("appended %d commits, Range delivered %d", len(q), i)})
	}
	return vs
}

// unit: cases are the first two alphabet letters; each case enumerates all
// continuations up to length L.
func (s *c05Spec) unit(name string) *eng.FlatSpec {
	A := s.alphabet()
	return &eng.FlatSpec{
		UnitName: name, Prop: "C05", Chunk: (A*A + 255) / 256,
		N: func() int { return A * A }, Count: &s.count,
		End: func() []eng.Violation {
			vs := s.checkLog(s.logq, s.file)
			s.logq = s.logq[:0]
			return vs
		},
		Case: func(i int) (string, bool, any, []eng.Violation) {
			a0, a1 := i/A, i%A
			var vs []eng.Violation
			var lq *[]c05Logged
			if s.log {
				lq = &s.logq
			}
			n := 0
			seq := make([]c05Op, 0, s.L)
			o0, ok := s.next(a0, 0)
			if !ok {
				return "skip", false, nil, nil
			}
			seq = append(seq, o0)
			if a1 == 0 {
				vs = append(vs, s.check(seq, lq)...)
				n++
				s.count++
			}
			var rec func(depth int)
			rec = func(depth int) {
				vs = append(vs, s.check(seq, lq)...)
				n++
				s.count++
				if depth >= s.L || len(vs) > 16 {
					return
				}
				last := int64(seq[len(seq)-1].off)
				for a := 0; a < A; a++ {
					if o, ok := s.next(a, last); ok {
						seq = append(seq, o)
						rec(depth + 1)
						seq = seq[:len(seq)-1]
					}
				}
			}
			if s.L >= 2 {
				if o1, ok := s.next(a1, int64(o0.off)); ok {
					seq = append(seq, o1)
					rec(2)
				}
			}
			if len(s.logq) >= 4096 {
				vs = append(vs, s.checkLog(s.logq, s.file)...)
				s.logq = s.logq[:0]
			}
			lbl := s.label(seq)
			return fmt.Sprintf("%d", i), len(seq) > 1, map[string]any{"unit": name, "first_two_ops": lbl, "sequences_in_case": n}, vs
		},
	}
}

// single-op buffers with every string length 0..65535
func c05Lengths() *eng.FlatSpec {
	s := &c05Spec{L: 1}
	return &eng.FlatSpec{
		UnitName: "every-length-0..65535", Prop: "C05", Chunk: 512,
		N: func() int { return 65536 },
		Case: func(n int) (string, bool, any, []eng.Violation) {
			s.kinds = []c05Kind{
				{name: fmt.Sprintf("putbytes%d", n), op: commit.Put, width: -1, payload: pat(n, byte(n))},
				{name: fmt.Sprintf("mergebytes%d=", n), op: commit.Merge, width: -1, payload: pat(n, byte(n+1)), result: pat(n, 0x30)},
			}
			var vs []eng.Violation
			for k := range s.kinds {
				for _, off := range []uint32{0, 16383, 16384} {
					seq := []c05Op{{kind: k, off: off}, {kind: 0, off: off + 1}}
					vs = append(vs, s.check(seq, nil)...)
				}
			}
			return fmt.Sprintf("%d", n), true, map[string]any{"unit": "every-length", "length": n}, vs
		},
	}
}

func init() {
	eng.Register(&eng.Check{
		Prop:  "C05",
		Level: "model_checking",
		Rule: "every sequence of length <= L over the alphabet (operation kind x offset move) written to a real commit.Buffer; " +
			"oracle = the literal list written, compared through Seek+Next, per-block Range, Buffer.Clone, Buffer.WriteTo/ReadFrom, " +
			"Commit.WriteTo/ReadFrom, Commit.Clone, Log.Append/Range and after a block-by-block merge-swap pass; a case is one pair of " +
			"first two letters (all continuations enumerated inside); non-trivial = sequence of two or more operations",
		Assumptions: []string{
			"values are fixed bit patterns per width; strings are patterned bytes of the listed lengths",
			"offsets stay below 6 blocks",
			"commit ids in the codec checks are small constants",
		},
		Budget: func(tier string) time.Duration {
			if tier == "quick" {
				return 150 * time.Second
			}
			return 25 * time.Minute
		},
		Bounds: func(tier string) map[string]any {
			if tier == "quick" {
				return map[string]any{"string_lengths_L2": []int{0, 1, 2, 127, 128, 255, 256, 16383, 16384, 65534, 65535}, "core_alphabet_L": 3, "moves": c05MoveNames}
			}
			return map[string]any{"string_lengths_L2": []int{0, 1, 2, 127, 128, 255, 256, 16383, 16384, 65534, 65535}, "mid_alphabet_L": 3, "fixed_width_alphabet_L": 4, "every_length_0_65535": true, "moves": c05MoveNames}
		},
		Units: func(tier string) []eng.Unit {
			small := c05Kinds([]int{0, 1, 2, 127, 128, 255, 256})
			big := append(c05Kinds(nil)[:4:4], c05Kinds([]int{16383, 16384, 65534, 65535})[9:]...)
			core := c05Kinds([]int{1})
			if tier == "quick" {
				return []eng.Unit{
					(&c05Spec{kinds: small, L: 2, log: true}).unit("small-strings-L2+log"),
					(&c05Spec{kinds: big, L: 2, log: true}).unit("big-strings-L2+log"),
					(&c05Spec{kinds: core, L: 3}).unit("core-alphabet-L3"),
				}
			}
			mid := c05Kinds([]int{0, 255})
			return []eng.Unit{
				(&c05Spec{kinds: small, L: 2, log: true, file: true}).unit("small-strings-L2+logfile"),
				(&c05Spec{kinds: big, L: 2, log: true, file: true}).unit("big-strings-L2+logfile"),
				(&c05Spec{kinds: mid, L: 3, log: true}).unit("mid-alphabet-L3+log"),
				(&c05Spec{kinds: core[:9], L: 4}).unit("fixed-width-alphabet-L4"),
				(&c05Spec{kinds: core, L: 3, log: true}).unit("core-alphabet-L3+log"),
				c05Lengths(),
			}
		},
	})
}
