package props

import (
	"bytes"
	"fmt"
	"strings"
	"time"

	"colverif/eng"
	"colverif/model"

	"github.com/kelindar/column/commit"
)

// ---------------------------------------------------------------------------
// C13 — truncated snapshot or log files never restore silently wrong state.
// FAULT: for fixed short histories, EVERY prefix of the snapshot byte stream (state
// + commit-log tail) is restored into a fresh collection; every prefix of a log
// file is ranged over.
// ---------------------------------------------------------------------------

// tailWriter runs a callback on the first Write: by then the state has been
// serialised and no latch is held, but the snapshot recorder is still open, so
// transactions committed from the callback land in the snapshot's log tail.
type tailWriter struct {
	buf    bytes.Buffer
	fire   func()
	fireAt int // index of the Write call on which to fire (0 = the first)
	calls  int
	fired  bool
}

func (t *tailWriter) Write(p []byte) (int, error) {
	if !t.fired && t.calls >= t.fireAt {
		t.fired = true
		if t.fire != nil {
			t.fire()
		}
	}
	t.calls++
	return t.buf.Write(p)
}

type c13History struct {
	name   string
	cols   []model.ColDef // schema override (default: the mixed schema)
	keyed  bool
	big    bool // multi-frame snapshot: frame boundaries +-2 and every 997th (coarse: 9973rd) byte
	coarse bool
	build  func(w *model.World) // history before the snapshot
	tail   [][]model.Act        // transactions committed while the snapshot is being written
}

type c13Built struct {
	h      c13History
	spec   genSpec
	w      *model.World
	data   []byte
	states []*model.Model // acceptable restored states, in order
	points []int          // prefix lengths to test
}

func c13Cols(h c13History) genSpec {
	return genSpec{keyed: h.keyed, logger: ""}
}

func (h c13History) config(spec genSpec) model.Config {
	cfg := spec.config(0)
	if h.cols != nil {
		cfg.Cols = h.cols
		cfg.Indexes = nil
	}
	return cfg
}

func (h c13History) prepare() (*c13Built, error) {
	b := &c13Built{h: h, spec: c13Cols(h)}
	w := model.NewWorld(h.config(b.spec))
	b.w = w
	h.build(w)
	b.states = append(b.states, w.M.Clone())
	tw := &tailWriter{}
	if h.big {
		// a state larger than one s2 block is written in several calls, all but the
		// last while a block latch is held: fire on the LAST state write (the final
		// flush), found by a dry run on an identical collection
		dry := model.NewWorld(h.config(b.spec))
		h.build(dry)
		cnt := &tailWriter{}
		if err := dry.C.Snapshot(cnt); err != nil {
			return nil, err
		}
		dry.Close()
		tw.fireAt = cnt.calls - 1
	}
	tw.fire = func() {
		for _, acts := range h.tail {
			prev := w.M.Clone()
			res := w.Txn(acts, false)
			next := w.M.Clone()
			done := map[uint32]bool{}
			for _, blk := range res.Blocks {
				done[blk] = true
				b.states = append(b.states, model.Mix(prev, next, copySet(done)))
			}
		}
	}
	if err := w.C.Snapshot(tw); err != nil {
		return nil, err
	}
	b.data = tw.buf.Bytes()
	n := len(b.data)
	if !h.big {
		for i := 0; i <= n; i++ {
			b.points = append(b.points, i)
		}
	} else {
		seen := map[int]bool{}
		add := func(i int) {
			if i >= 0 && i <= n && !seen[i] {
				seen[i] = true
				b.points = append(b.points, i)
			}
		}
		step := 997
		if h.coarse {
			step = 9973
		}
		for i := 0; i <= n; i += step {
			add(i)
		}
		for _, fb := range s2FrameBoundaries(b.data) {
			for d := -2; d <= 2; d++ {
				add(fb + d)
			}
		}
		add(n)
		add(n - 1)
	}
	return b, nil
}

func copySet(m map[uint32]bool) map[uint32]bool {
	c := map[uint32]bool{}
	for k, v := range m {
		c[k] = v
	}
	return c
}

// s2FrameBoundaries walks the framing format (1 byte type, 3 bytes length) of the
// concatenated s2 streams.
func s2FrameBoundaries(b []byte) (out []int) {
	for i := 0; i+4 <= len(b); {
		n := int(b[i+1]) | int(b[i+2])<<8 | int(b[i+3])<<16
		i += 4 + n
		out = append(out, i)
	}
	return out
}

// restoreCase restores the first n bytes and judges the outcome.
func (b *c13Built) restoreCase(n int) (key string, nontrivial bool, sample any, vs []eng.Violation) {
	t := b.w.Twin(b.h.config(b.spec), true)
	defer t.Close()
	var err error
	func() {
		defer func() {
			if r := recover(); r != nil {
				t.Poisoned = true
				vs = append(vs, eng.Violation{Assert: "no-panic", Witness: "Restore panicked on a truncated stream",
					Detail: fmt.Sprintf("history %s, first %d of %d bytes: panic: %v", b.h.name, n, len(b.data), r)})
			}
		}()
		if !within(c14Patience, func() {
			defer func() {
				if r := recover(); r != nil {
					t.Poisoned = true
					vs = append(vs, eng.Violation{Assert: "no-panic", Witness: "Restore panicked on a truncated stream",
						Detail: fmt.Sprintf("history %s, first %d of %d bytes: panic: %v", b.h.name, n, len(b.data), r)})
				}
			}()
			err = t.C.Restore(bytes.NewReader(b.data[:n]))
		}) {
			t.Poisoned = true
			vs = append(vs, eng.Violation{Assert: "no-hang", Witness: "Restore of a truncated stream never returns",
				Detail: fmt.Sprintf("history %s, first %d of %d bytes: Restore did not return within %v", b.h.name, n, len(b.data), c14Patience)})
		}
	}()
	sample = map[string]any{"history": b.h.name, "bytes": n, "of": len(b.data), "restore_error": fmt.Sprint(err)}
	if t.Poisoned {
		return "panic", true, sample, vs
	}
	if err != nil {
		return "error", n > 0, sample, nil
	}
	obs := model.Obs{Values: true, Indexes: true}
	if b.h.keyed {
		obs.Keys = []string{"a", "b", "s0", "s1"}
	}
	var first []eng.Violation
	for j, m := range b.states {
		t.M = m
		d := t.Check(obs)
		if len(d) == 0 {
			return fmt.Sprintf("state+%d", j), true, sample, nil
		}
		if j == 0 || len(d) < len(first) {
			first = d
		}
	}
	detail := ""
	if len(first) > 0 {
		detail = first[0].Detail
	}
	if n == len(b.data) {
		return "wrong", true, sample, []eng.Violation{{Assert: "restore/complete", Witness: "the complete stream does not restore to the final state",
			Detail: fmt.Sprintf("history %s: complete stream (%d bytes) restored without error to a state equal to none of the %d commit boundaries; closest: %s", b.h.name, n, len(b.states), detail)}}
	}
	return "wrong", true, sample, []eng.Violation{{Assert: "restore/prefix", Witness: "a truncated stream restores without error to a state that is no commit boundary",
		Detail: fmt.Sprintf("history %s: first %d of %d bytes restored without error to a state equal to none of the %d commit boundaries; closest: %s", b.h.name, n, len(b.data), len(b.states), detail)}}
}

func c13Histories(tier string) []c13History {
	V := func(n uint64) model.Val { return model.Val{N: n} }
	S := func(x string) model.Val { return model.Val{S: x} }
	W := func(col string, v model.Val) model.Write { return model.Write{Col: col, V: v} }
	full := []model.Write{W("n", V(2)), W("s", S("a")), W("b", V(1)), W("e", S("x")), W("r", S("rec")), W("f", V(0x3ff8000000000000)), W("u", V(65535))}
	part := []model.Write{W("n", V(1)), W("e", S("y"))}
	oneBlock := func(w *model.World) {
		w.Txn([]model.Act{{Op: "insert", W: full}, {Op: "insert", W: part}, {Op: "insert"}}, false)
		w.Txn([]model.Act{{Op: "put", Off: 0, W: []model.Write{{SetTTL: true, TTL: time.Hour}}}, {Op: "del", Off: 2}}, false)
	}
	twoBlocks := func(w *model.World) {
		w.SeedReplay(map[uint32][]model.Write{3: full, 16384 + 1: full, 16384 + 9: part})
		w.Txn([]model.Act{{Op: "insert", W: part}}, false)
	}
	hs := []c13History{
		{name: "empty/no-tail", build: func(w *model.World) {}},
		{name: "empty/tail-insert", build: func(w *model.World) {}, tail: [][]model.Act{{{Op: "insert", W: full}}}},
		{name: "one-block/no-tail", build: oneBlock},
		{name: "one-block/tail-1", build: oneBlock, tail: [][]model.Act{{{Op: "put", Off: 0, W: []model.Write{W("n", V(9)), {Col: "s", V: S("x"), Merge: true}}}}}},
		{name: "one-block/tail-3", build: oneBlock, tail: [][]model.Act{
			{{Op: "put", Off: 0, W: []model.Write{{Col: "n", V: V(1), Merge: true}}}},
			{{Op: "insert", W: full}},
			{{Op: "del", Off: 1}}}},
		{name: "two-blocks/no-tail", build: twoBlocks},
		{name: "two-blocks/tail-multi-block", build: twoBlocks, tail: [][]model.Act{
			{{Op: "put", Off: 3, W: []model.Write{W("n", V(7)), W("b", V(0))}}, {Op: "put", Off: 16385, W: []model.Write{W("s", S("b")), W("e", S("y"))}}},
			{{Op: "del", Off: 16393}},
			{{Op: "insert", W: part}}}},
		{name: "keyed/tail-2", keyed: true, build: func(w *model.World) {
			w.Txn([]model.Act{{Op: "insertkey", Key: "a", W: []model.Write{W("n", V(2)), W("s", S("a"))}}}, false)
			w.Txn([]model.Act{{Op: "insertkey", Key: "b", W: []model.Write{W("n", V(1))}}}, false)
		}, tail: [][]model.Act{
			{{Op: "deletekey", Key: "a"}},
			{{Op: "upsertkey", Key: "s0", W: []model.Write{W("n", V(5))}}}}},
	}
	{
		bigRows := func(w *model.World) {
			var acts []model.Act
			for i := 0; i < 48; i++ {
				// incompressible-ish 64K strings: several s2 frames
				acts = append(acts, model.Act{Op: "insert", W: []model.Write{W("n", V(uint64(i))), W("s", S(noise(65535, i)))}})
			}
			w.Txn(acts, false)
		}
		// a single column value larger than one s2 block that is the LAST thing in the
		// state stream (last column of the last block), with and without a log tail
		lastBig := func(w *model.World) {
			var acts []model.Act
			for i := 0; i < 20; i++ {
				acts = append(acts, model.Act{Op: "insert", W: []model.Write{W("n", V(uint64(i))), W("s", S(noise(65535, 200+i)))}})
			}
			w.Txn(acts, false)
		}
		twoCols := []model.ColDef{{Name: "n", Kind: "int"}, {Name: "s", Kind: "string"}}
		hs = append(hs, c13History{name: "multi-frame/big-last-column/no-tail", big: true, coarse: true, cols: twoCols, build: lastBig})
		hs = append(hs, c13History{name: "multi-frame/big-last-column/tail-big-commit", big: true, coarse: true, cols: twoCols, build: lastBig, tail: [][]model.Act{
			{{Op: "insert", W: []model.Write{W("n", V(7))}}, {Op: "put", Off: 0, W: []model.Write{W("s", S(noise(65535, 300)))}}, {Op: "put", Off: 1, W: []model.Write{W("s", S(noise(65535, 301)))}},
				{Op: "put", Off: 2, W: []model.Write{W("s", S(noise(65535, 302)))}}, {Op: "put", Off: 3, W: []model.Write{W("s", S(noise(65535, 303)))}},
				{Op: "put", Off: 4, W: []model.Write{W("s", S(noise(65535, 304)))}}, {Op: "put", Off: 5, W: []model.Write{W("s", S(noise(65535, 305)))}},
				{Op: "put", Off: 6, W: []model.Write{W("s", S(noise(65535, 306)))}}, {Op: "put", Off: 7, W: []model.Write{W("s", S(noise(65535, 307)))}},
				{Op: "put", Off: 8, W: []model.Write{W("s", S(noise(65535, 308)))}}, {Op: "put", Off: 9, W: []model.Write{W("s", S(noise(65535, 309)))}},
				{Op: "put", Off: 10, W: []model.Write{W("s", S(noise(65535, 310)))}}, {Op: "put", Off: 11, W: []model.Write{W("s", S(noise(65535, 311)))}},
				{Op: "put", Off: 12, W: []model.Write{W("s", S(noise(65535, 312)))}}, {Op: "put", Off: 13, W: []model.Write{W("s", S(noise(65535, 313)))}},
				{Op: "put", Off: 14, W: []model.Write{W("s", S(noise(65535, 314)))}}, {Op: "put", Off: 15, W: []model.Write{W("s", S(noise(65535, 315)))}},
				{Op: "put", Off: 16, W: []model.Write{W("s", S(noise(65535, 316)))}}, {Op: "put", Off: 17, W: []model.Write{W("s", S(noise(65535, 317)))}}}}})
		hs = append(hs, c13History{name: "multi-frame/tail-2", big: true, coarse: tier == "quick", build: bigRows, tail: [][]model.Act{
			{{Op: "put", Off: 0, W: []model.Write{W("s", S(noise(60000, 99)))}}},
			{{Op: "del", Off: 1}}}})
	}
	return hs
}

func noise(n, seed int) string {
	var sb strings.Builder
	x := uint32(seed*2654435761 + 12345)
	for sb.Len() < n {
		x = x*1664525 + 1013904223
		sb.WriteByte(byte(x >> 24))
	}
	return sb.String()[:n]
}

// ---- log files

type c13Log struct {
	name    string
	commits []commit.Commit
	data    []byte
	frames  bool // test only the s2 frame boundaries +-2 (big logs)
}

func (l *c13Log) points() []int {
	if !l.frames {
		out := make([]int, len(l.data)+1)
		for i := range out {
			out[i] = i
		}
		return out
	}
	seen := map[int]bool{}
	var out []int
	for _, fb := range append(s2FrameBoundaries(l.data), 0, len(l.data)) {
		for d := -2; d <= 2; d++ {
			if n := fb + d; n >= 0 && n <= len(l.data) && !seen[n] {
				seen[n] = true
				out = append(out, n)
			}
		}
	}
	return out
}

func c13Logs() (out []*c13Log) {
	mk := func(id uint64, chunk commit.Chunk, offs ...uint32) commit.Commit {
		b := commit.NewBuffer(16)
		b.Reset("n")
		for i, o := range offs {
			if i%2 == 0 {
				b.PutInt64(commit.Put, o, int64(o)+1)
			} else {
				b.PutInt64(commit.Merge, o, 5)
			}
		}
		r := commit.NewBuffer(16)
		r.Reset("row")
		r.PutOperation(commit.Insert, offs[0])
		return commit.Commit{ID: id, Chunk: chunk, Updates: []*commit.Buffer{r, b}}
	}
	all := []commit.Commit{mk(11, 0, 1, 2, 3), mk(12, 1, 16384, 16390), mk(13, 0, 5), mk(14, 1, 16385, 16384, 20000)}
	{
		// one commit whose last update is larger than one s2 block
		b := commit.NewBuffer(16)
		b.Reset("s")
		for i := 0; i < 20; i++ {
			b.PutString(commit.Put, uint32(i), noise(65535, 400+i))
		}
		r := commit.NewBuffer(16)
		r.Reset("row")
		r.PutOperation(commit.Insert, 0)
		big := commit.Commit{ID: 21, Chunk: 0, Updates: []*commit.Buffer{r, b}}
		var buf bytes.Buffer
		lg := commit.Open(&buf)
		lg.Append(all[0])
		lg.Append(big)
		lg.Append(all[2])
		out = append(out, &c13Log{name: "log-with-1.3MB-commit", commits: []commit.Commit{all[0], big, all[2]}, data: append([]byte{}, buf.Bytes()...), frames: true})
	}
	for n := 1; n <= len(all); n++ {
		var buf bytes.Buffer
		lg := commit.Open(&buf)
		for _, c := range all[:n] {
			lg.Append(c)
		}
		out = append(out, &c13Log{name: fmt.Sprintf("log-%d-commits", n), commits: all[:n], data: append([]byte{}, buf.Bytes()...)})
	}
	return out
}

func commitSig(c commit.Commit) string {
	var sb strings.Builder
	fmt.Fprintf(&sb, "id=%d chunk=%d", c.ID, c.Chunk)
	for _, u := range c.Updates {
		recs, _ := readChunk(u, c.Chunk)
		fmt.Fprintf(&sb, " %s:%s", u.Column, recsStr(recs))
	}
	return sb.String()
}

var c13HangSeen bool

func (l *c13Log) rangeCase(n int) (key string, nontrivial bool, sample any, vs []eng.Violation) {
	var got []string
	var err error
	func() {
		defer func() {
			if r := recover(); r != nil {
				vs = append(vs, eng.Violation{Assert: "no-panic", Witness: "Log.Range panicked on a truncated log",
					Detail: fmt.Sprintf("%s, first %d of %d bytes: panic: %v", l.name, n, len(l.data), r)})
			}
		}()
		lg := commit.Open(bytes.NewReader(l.data[:n]))
		err = lg.Range(func(c commit.Commit) error {
			got = append(got, commitSig(c))
			return nil
		})
		// whatever the outcome, the log object must still answer: a recovery routine
		// ranges again or closes it (the limit only turns "blocks forever" into a verdict)
		if !c13HangSeen && !within(c14Patience, func() {
			lg.Range(func(commit.Commit) error { return nil })
			lg.Close()
		}) {
			c13HangSeen = true // one verdict per worker process is enough; do not wait again
			vs = append(vs, eng.Violation{Assert: "log/hang", Once: true, Witness: "a call on the log blocks forever after ranging over it",
				Detail: fmt.Sprintf("%s, first %d of %d bytes: Range returned err=%v; a second Range followed by Close did not return within %v", l.name, n, len(l.data), err, c14Patience)})
		}
	}()
	sample = map[string]any{"log": l.name, "bytes": n, "of": len(l.data), "delivered": len(got), "error": fmt.Sprint(err)}
	if len(vs) > 0 {
		return vs[0].Assert, true, sample, vs
	}
	for i, g := range got {
		if i >= len(l.commits) || g != commitSig(l.commits[i]) {
			return "wrong", true, sample, []eng.Violation{{Assert: "log/prefix", Witness: "a truncated log delivers a commit that was not appended (or a partial one)",
				Detail: fmt.Sprintf("%s, first %d of %d bytes: delivered commit %d = {%s}", l.name, n, len(l.data), i, g)}}
		}
	}
	if n == len(l.data) && (err != nil || len(got) != len(l.commits)) {
		return "wrong", true, sample, []eng.Violation{{Assert: "log/complete", Witness: "the complete log does not deliver every commit",
			Detail: fmt.Sprintf("%s: delivered %d of %d commits, err=%v", l.name, len(got), len(l.commits), err)}}
	}
	return fmt.Sprintf("%d commits err=%v", len(got), err != nil), n > 0, sample, nil
}

func init() {
	eng.Register(&eng.Check{
		Prop:  "C13",
		Level: "fault_enumeration",
		Rule: "crash points = EVERY prefix length 0..|B| of the snapshot byte stream B of each history (empty / one block / two blocks / keyed; without a log tail and with tails of 1-4 logged " +
			"commits incl. a multi-block transaction, produced by committing from inside the destination writer's first Write), each restored into a fresh collection; and every prefix of log " +
			"files holding 1..4 commits over two blocks, ranged over; plus (SCHED) snapshots taken beside 2 committing transactions in every interleaving up to 2 preemptions, cut at " +
			"every s2 frame boundary. Oracle: Restore returns an error, or the restored rows/values/indexes/keys equal the model at the state stream plus the first j " +
			"logged commits for some j; Log.Range delivers a prefix of the appended commits, each equal to the original, and a second Range and Close on the same log return; no panic. distinct = distinct (history, outcome class) pairs; " +
			"thorough adds a multi-frame (~3 MB) snapshot at every s2 frame boundary +-2 and every 997th byte",
		Assumptions: []string{"a hang is caught only by the coordinator's watchdog (reported as a harness error, not a violation)", "truncation only (no bit flips): what a crash while writing leaves behind"},
		Budget:      budget(170*time.Second, 28*time.Minute),
		Units: func(tier string) (units []eng.Unit) {
			for _, h := range c13Histories(tier) {
				h := h
				// built eagerly and in a fixed order: with the fixed commit-id seed every
				// process then produces byte-identical snapshots (the coordinator splits
				// the offsets, workers execute them)
				built, err := h.prepare()
				if err != nil {
					panic(fmt.Sprintf("C13 history %s: snapshot failed: %v", h.name, err))
				}
				get := func() *c13Built { return built }
				units = append(units, &eng.FlatSpec{UnitName: "snapshot/" + h.name, Prop: "C13", Chunk: 64, Outcomes: true,
					N: func() int { return len(get().points) },
					Case: func(i int) (string, bool, any, []eng.Violation) {
						b := get()
						if i >= len(b.points) {
							i = len(b.points) - 1
						}
						return b.restoreCase(b.points[i])
					}})
			}
			// snapshots taken WITH concurrent commits: the C08 scenarios, every clean cut
			var scs []scenario
			for _, sc := range c08Scenarios() {
				sc := sc
				if (len(sc.writers) > 2 && tier == "quick") || sc.full || len(sc.writers) > 3 {
					continue // (full: 16K filler rows, only the whole-snapshot oracle of C08 knows them)
				}
				b := 2
				if len(sc.writers) > 2 {
					b = 1
				}
				scs = append(scs, scenario{"truncated/" + sc.name, b, sc.truncated})
			}
			units = append(units, schedUnits("C13", scs)...)
			for _, l := range c13Logs() {
				l := l
				pts := l.points()
				units = append(units, &eng.FlatSpec{UnitName: l.name, Prop: "C13", Chunk: 128, Outcomes: true,
					N: func() int { return len(pts) },
					Case: func(i int) (string, bool, any, []eng.Violation) {
						if i >= len(pts) {
							i = len(pts) - 1
						}
						return l.rangeCase(pts[i])
					}})
			}
			return units
		},
	})
}
