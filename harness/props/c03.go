package props

import (
	"bytes"
	"fmt"
	"time"

	"colverif/eng"
	"colverif/model"
)

// ---------------------------------------------------------------------------
// C03 — bitmap indexes always equal their predicate over the current values.
// SEQ: schema {n:int, s:string, b:bool, e:enum}; index catalogue per family;
// indexes created and dropped by alphabet letters; at EVERY node the primary, a
// stream replica (indexes created before and after the replay) and a restored
// snapshot (indexes created before and after the restore) are compared with the
// predicate evaluated on the model.
// ---------------------------------------------------------------------------

type c03Spec struct {
	family string // n, s, b, e
	preset string
	depth  int
}

func (s c03Spec) name() string { return fmt.Sprintf("%s-indexes/%s/d%d", s.family, s.preset, s.depth) }

var c03Cols = []model.ColDef{{Name: "n", Kind: "int"}, {Name: "s", Kind: "string"}, {Name: "b", Kind: "bool"}, {Name: "e", Kind: "enum"}}

func (s c03Spec) indexes() []string {
	switch s.family {
	case "n":
		return []string{"n>1", "n>1#2", "n%2"}
	case "s":
		return []string{"s=a"}
	case "b":
		return []string{"b=t"}
	}
	return []string{"e=x"}
}

func (s c03Spec) vals() (col string, vals []model.Val, delta *model.Val) {
	switch s.family {
	case "n":
		return "n", []model.Val{{N: 1}, {N: 2}}, &model.Val{N: 1}
	case "s":
		return "s", []model.Val{{S: "a"}, {S: "b"}}, &model.Val{S: "a"}
	case "b":
		return "b", []model.Val{{N: 1}, {N: 0}}, nil
	}
	return "e", []model.Val{{S: "x"}, {S: "y"}}, nil
}

func (s c03Spec) newState() eng.SeqState {
	w := model.NewWorld(model.Config{Cols: c03Cols, Logger: "codec"})
	col, vals, _ := s.vals()
	applyPreset(w, s.preset, []model.Write{{Col: col, V: vals[0]}})
	return &worldState{w: w, ops: s.ops, check: c03Check}
}

func c03Check(w *model.World) (vs []eng.Violation) {
	tagv := func(tag string, in []eng.Violation) {
		for _, v := range in {
			v.Assert = v.Assert + "@" + tag
			vs = append(vs, v)
		}
	}
	// values are compared too: an index can only be judged on a copy whose values
	// agree with the primary, and a value mismatch is the earlier symptom
	obs := model.Obs{Indexes: true, Values: true}
	vs = w.Check(obs)
	if w.Poisoned {
		return vs
	}
	run := func(tag string, f func(t *model.World) error, early bool) {
		t := w.Twin(model.Config{}, early)
		defer t.Close()
		defer func() {
			if r := recover(); r != nil {
				vs = append(vs, eng.Violation{Assert: "no-panic@" + tag, Witness: "panic", Detail: fmt.Sprint(r)})
			}
		}()
		if err := f(t); err != nil {
			vs = append(vs, eng.Violation{Assert: "error@" + tag, Witness: "error", Detail: err.Error()})
			return
		}
		if !early {
			t.CreateModelIndexes()
		}
		tagv(tag, t.Check(obs))
	}
	replay := func(t *model.World) error { return w.ReplayInto(t, 0) }
	run("replica(index-first)", replay, true)
	run("replica(index-last)", replay, false)
	snap, err := w.Snapshot()
	if err != nil {
		return append(vs, eng.Violation{Assert: "snapshot/error", Witness: "error", Detail: err.Error()})
	}
	restore := func(t *model.World) error { return t.C.Restore(bytes.NewReader(snap)) }
	run("restored(index-first)", restore, true)
	run("restored(index-last)", restore, false)
	return vs
}

func (s c03Spec) ops(w *model.World) (out []opx) {
	col, vals, delta := s.vals()
	out = append(out,
		txnOp(w, []model.Act{{Op: "insert", W: []model.Write{{Col: col, V: vals[0]}}}}, false),
		txnOp(w, []model.Act{{Op: "insert", W: []model.Write{{Col: col, V: vals[1]}}}}, false),
		txnOp(w, []model.Act{{Op: "insert"}}, false),
	)
	rows := firstRows(w, 2)
	if hi, ok := lastRow(w); ok && len(rows) == 2 && hi != rows[1] {
		rows[1] = hi // reach the last block when the layout has several
	}
	for i, r := range rows {
		for _, v := range vals {
			out = append(out, txnOp(w, []model.Act{{Op: "put", Off: r, W: []model.Write{{Col: col, V: v}}}}, false))
		}
		if delta != nil && i == 0 {
			out = append(out, txnOp(w, []model.Act{{Op: "put", Off: r, W: []model.Write{{Col: col, V: *delta, Merge: true}}}}, false))
			// put then merge, and merge then put, in one transaction: the index must
			// follow the value finally stored
			out = append(out, txnOp(w, []model.Act{{Op: "put", Off: r, W: []model.Write{{Col: col, V: vals[1]}, {Col: col, V: *delta, Merge: true}}}}, false))
			o := txnOp(w, []model.Act{{Op: "put", Off: r, W: []model.Write{{Col: col, V: *delta, Merge: true}, {Col: col, V: vals[0]}}}}, false)
			if s.family == "s" {
				o.tag = "variable-length merge then overwrite of the same row in one transaction"
			}
			out = append(out, o)
		}
		out = append(out, txnOp(w, []model.Act{{Op: "del", Off: r}}, false))
	}
	for _, ix := range s.indexes() {
		ix := ix
		if w.HasIndex(ix) {
			out = append(out, opx{label: "dropIndex(" + ix + ")", run: func() []eng.Violation {
				if err := w.DropIndex(ix); err != nil {
					return []eng.Violation{{Assert: "dropindex", Witness: "DropIndex failed", Detail: err.Error()}}
				}
				return nil
			}})
		} else {
			out = append(out, opx{label: "createIndex(" + ix + ")", run: func() []eng.Violation {
				if err := w.CreateIndex(ix); err != nil {
					return []eng.Violation{{Assert: "createindex", Witness: "CreateIndex failed", Detail: err.Error()}}
				}
				return nil
			}})
			// the index is created while a transaction that already wrote the column is open
			if len(rows) > 0 {
				mk := model.Act{Op: "call", Key: "createIndex(" + ix + ")", Call: func() error { return w.CreateIndex(ix) }}
				out = append(out, txnOp(w, []model.Act{{Op: "put", Off: rows[0], W: []model.Write{{Col: col, V: vals[1]}}}, mk}, false))
				out = append(out, txnOp(w, []model.Act{{Op: "insert", W: []model.Write{{Col: col, V: vals[0]}}}, mk, {Op: "put", Off: rows[0], W: []model.Write{{Col: col, V: vals[0]}}}}, false))
			}
		}
	}
	return out
}

func init() {
	eng.Register(&eng.Check{
		Prop:  "C03",
		Level: "model_checking",
		Rule: "every history up to depth d over {insert with a value on either side of the predicate, empty insert, overwrite, merge, put+merge and merge+put in one " +
			"transaction, delete (offset reuse), createIndex, dropIndex, createIndex from inside a transaction body that already wrote the column} per index family (numeric thresholds incl. two indexes with one predicate, string equality, bool, enum equality); " +
			"at every node: With(index) and Row.Bool(index) on the primary, on a stream replica and on a restored snapshot (indexes created before and after the data) equal the " +
			"predicate evaluated on the model; states = distinct model states",
		Assumptions: []string{"re-creating an index under a name that is still in use is not exercised"},
		Budget:      budget(170*time.Second, 28*time.Minute),
		Bounds: func(tier string) map[string]any {
			if tier == "quick" {
				return map[string]any{"depth": "4 (empty), 3 (sparse-3)", "families": []string{"n", "s", "b", "e"}}
			}
			return map[string]any{"depth": "5 (empty), 4 (sparse-3), 3 (block-edge)", "families": []string{"n", "s", "b", "e"}}
		},
		Units: func(tier string) (units []eng.Unit) {
			for _, f := range []string{"n", "s", "b", "e"} {
				specs := []c03Spec{{f, "empty", 4}, {f, "sparse-3", 3}}
				if tier != "quick" {
					specs = []c03Spec{{f, "empty", 5}, {f, "sparse-3", 4}, {f, "block-edge", 3}}
				}
				for _, s := range specs {
					s := s
					units = append(units, &eng.SeqSpec{UnitName: s.name(), Prop: "C03", Depth: s.depth, Split: 2, New: s.newState})
				}
			}
			return append(units, c03SchedUnits(tier)...)
		},
	})
}
