package props

import (
	"fmt"
	"sort"
	"time"

	"colverif/eng"
	"colverif/model"

	"github.com/kelindar/column"
)

// ---------------------------------------------------------------------------
// C16 — sorted-index iteration is complete and ordered.
// SEQ over a two-letter string alphabet (forcing duplicates); the index is created
// by an alphabet letter (before or after data); every observation runs Ascend after
// each filter chain of length <= 1.
// ---------------------------------------------------------------------------

type c16Spec struct {
	preset string
	depth  int
}

func (s c16Spec) name() string { return fmt.Sprintf("%s/d%d", s.preset, s.depth) }

type c16State struct {
	worldState
	hasIndex bool
}

func (s c16Spec) newState() eng.SeqState {
	w := model.NewWorld(model.Config{Cols: []model.ColDef{{Name: "s", Kind: "string"}, {Name: "n", Kind: "int"}}})
	applyPreset(w, s.preset, []model.Write{{Col: "s", V: model.Val{S: "b"}}, {Col: "n", V: model.Val{N: 2}}})
	st := &c16State{}
	st.w = w
	st.ops = func(w *model.World) []opx { return s.ops(st) }
	st.check = func(w *model.World) []eng.Violation { return st.checkAscend() }
	return st
}

func (s c16Spec) ops(st *c16State) (out []opx) {
	w := st.w
	sw := func(v string) []model.Write {
		return []model.Write{{Col: "s", V: model.Val{S: v}}, {Col: "n", V: model.Val{N: 2}}}
	}
	out = append(out,
		txnOp(w, []model.Act{{Op: "insert", W: sw("a")}}, false),
		txnOp(w, []model.Act{{Op: "insert", W: sw("b")}}, false),
		txnOp(w, []model.Act{{Op: "insert", W: []model.Write{{Col: "n", V: model.Val{N: 1}}}}}, false),
		txnOp(w, []model.Act{{Op: "insert", W: sw("")}}, false),
	)
	rows := firstRows(w, 2)
	if hi, ok := lastRow(w); ok && len(rows) == 2 && hi != rows[1] {
		rows[1] = hi
	}
	for i, r := range rows {
		out = append(out, txnOp(w, []model.Act{{Op: "put", Off: r, W: []model.Write{{Col: "s", V: model.Val{S: "a"}}}}}, false))
		out = append(out, txnOp(w, []model.Act{{Op: "put", Off: r, W: []model.Write{{Col: "s", V: model.Val{S: "b"}}}}}, false))
		if i == 0 {
			// the empty string is a value like any other (and sorts first)
			out = append(out, txnOp(w, []model.Act{{Op: "put", Off: r, W: []model.Write{{Col: "s", V: model.Val{S: ""}}}}}, false))
		}
		if i == 0 {
			out = append(out, txnOp(w, []model.Act{{Op: "put", Off: r, W: []model.Write{{Col: "s", V: model.Val{S: "a"}, Merge: true}}}}, false))
			// merge, then overwrite, of one row in one transaction (the row ends on the overwrite)
			x := txnOp(w, []model.Act{{Op: "put", Off: r, W: []model.Write{{Col: "s", V: model.Val{S: "a"}, Merge: true}, {Col: "s", V: model.Val{S: "b"}}}}}, false)
			x.tag = "variable-length merge then overwrite of the same row in one transaction"
			out = append(out, x)
		}
		out = append(out, txnOp(w, []model.Act{{Op: "del", Off: r}}, false))
		if i == 0 {
			// overwrite and delete of one row in one transaction: the row is gone
			x := txnOp(w, []model.Act{{Op: "put", Off: r, W: []model.Write{{Col: "s", V: model.Val{S: "a"}}}}, {Op: "del", Off: r}}, false)
			x.tag = "write and delete of one row in one transaction"
			out = append(out, x)
		}
	}
	if !st.hasIndex {
		out = append(out, opx{label: "createSortIndex(sorted on s)", run: func() []eng.Violation {
			if err := w.C.CreateSortIndex("sorted", "s"); err != nil {
				return []eng.Violation{{Assert: "createsortindex", Witness: "CreateSortIndex failed", Detail: err.Error()}}
			}
			st.hasIndex = true
			return nil
		}})
		// ... and created while a transaction that already wrote the column is open
		if len(rows) > 0 {
			var cerr error
			mk := model.Act{Op: "call", Key: "createSortIndex(sorted on s)", Call: func() error {
				cerr = w.C.CreateSortIndex("sorted", "s")
				st.hasIndex = cerr == nil
				return cerr
			}}
			out = append(out, txnOp(w, []model.Act{{Op: "put", Off: rows[0], W: []model.Write{{Col: "s", V: model.Val{S: "b"}}}}, mk, {Op: "insert", W: sw("a")}}, false))
		}
	}
	return out
}

func (st *c16State) Key() (string, bool) {
	k, nt := st.worldState.Key()
	return fmt.Sprintf("%s idx=%v", k, st.hasIndex), nt
}

func (st *c16State) checkAscend() (vs []eng.Violation) {
	w := st.w
	vs = w.Check(model.Obs{Values: true})
	if !st.hasIndex || w.Poisoned {
		return vs
	}
	defer func() {
		if r := recover(); r != nil {
			w.Poisoned = true
			vs = append(vs, eng.Violation{Assert: "no-panic", Witness: "panic in Ascend", Detail: fmt.Sprint(r)})
		}
	}()
	type filt struct {
		name  string
		apply func(t *column.Txn)
		keep  func(r *model.Row) bool
	}
	filters := []filt{
		{"(none)", func(t *column.Txn) {}, func(r *model.Row) bool { return true }},
		{"With(n)", func(t *column.Txn) { t.With("n") }, func(r *model.Row) bool { _, ok := r.V["n"]; return ok }},
		{"WithString(s,=a)", func(t *column.Txn) { t.WithString("s", func(v string) bool { return v == "a" }) }, func(r *model.Row) bool { return r.V["s"].S == "a" && hasCol(r, "s") }},
		{"WithInt(n,>1)", func(t *column.Txn) { t.WithInt("n", func(v int64) bool { return v > 1 }) }, func(r *model.Row) bool { return hasCol(r, "n") && int64(r.V["n"].N) > 1 }},
		{"Without(s)", func(t *column.Txn) { t.Without("s") }, func(r *model.Row) bool { return !hasCol(r, "s") }},
		{"Without(n)", func(t *column.Txn) { t.Without("n") }, func(r *model.Row) bool { return !hasCol(r, "n") }},
		{"Union(n,s)", func(t *column.Txn) { t.Union("n", "s") }, func(r *model.Row) bool { return hasCol(r, "n") || hasCol(r, "s") }},
		{"With(n).WithString(s,=b)", func(t *column.Txn) { t.With("n").WithString("s", func(v string) bool { return v == "b" }) },
			func(r *model.Row) bool { return hasCol(r, "n") && hasCol(r, "s") && r.V["s"].S == "b" }},
		{"With(s).WithUnion(n,zz)", func(t *column.Txn) { t.With("s").WithUnion("n", "zz") }, func(r *model.Row) bool { return hasCol(r, "s") && hasCol(r, "n") }},
		{"WithValue(s,len>1)", func(t *column.Txn) {
			t.WithValue("s", func(v interface{}) bool { x, ok := v.(string); return ok && len(x) > 1 })
		}, func(r *model.Row) bool { return hasCol(r, "s") && len(r.V["s"].S) > 1 }},
	}
	for _, f := range filters {
		eng.Sub["ascend_runs"]++
		var want []uint32
		for _, off := range w.M.Offsets() {
			r := w.M.Live[off]
			if f.keep(r) && hasCol(r, "s") {
				want = append(want, off)
			}
		}
		var got []uint32
		var vals []string
		w.C.Query(func(t *column.Txn) error {
			f.apply(t)
			rd := t.String("s")
			return t.Ascend("sorted", func(idx uint32) {
				got = append(got, idx)
				v, _ := rd.Get()
				vals = append(vals, v)
			})
		})
		gs := append([]uint32{}, got...)
		sort.Slice(gs, func(i, j int) bool { return gs[i] < gs[j] })
		if !sameU32s(gs, want) {
			wit := "Ascend after " + f.name + " visits a different set of rows than the selected rows holding a value"
			dup := false
			for i := 1; i < len(gs); i++ {
				if gs[i] == gs[i-1] {
					dup = true
				}
			}
			if dup {
				wit = "Ascend after " + f.name + " visits a row more than once"
			}
			vs = append(vs, eng.Violation{Assert: "ascend/complete", Witness: wit, ReadOnly: false,
				Detail: fmt.Sprintf("after %s: Ascend visited %v (values %q), selected rows holding s: %v", f.name, got, vals, want)})
			continue
		}
		if !sort.StringsAreSorted(vals) {
			vs = append(vs, eng.Violation{Assert: "ascend/order", Witness: "values not in non-decreasing order",
				Detail: fmt.Sprintf("after %s: Ascend visited %v with values %q", f.name, got, vals)})
		}
		for i, off := range got {
			if w.M.Live[off].V["s"].S != vals[i] {
				vs = append(vs, eng.Violation{Assert: "ascend/cursor", Witness: "reader inside Ascend not positioned on the visited row",
					Detail: fmt.Sprintf("after %s: at row %d read %q, committed %q", f.name, off, vals[i], w.M.Live[off].V["s"].S)})
				break
			}
		}
	}
	return vs
}

func hasCol(r *model.Row, c string) bool { _, ok := r.V[c]; return ok }

func init() {
	eng.Register(&eng.Check{
		Prop:  "C16",
		Level: "model_checking",
		Rule: "every history up to depth d over {insert a / b / without the string, overwrite a / b, concatenating merge, merge+overwrite in one transaction, delete (offset reuse), createSortIndex (between transactions and from inside one that already wrote the column)} on strings over {a,b,empty} " +
			"(duplicates forced) in one and several blocks; at every node Ascend runs after each of 10 filter chains (length 0-2) and must visit exactly the selected rows holding a value, once each, " +
			"values non-decreasing and readers positioned; states = distinct (model state, index present). SCHED: CreateSortIndex beside 1-2 committing transactions in every interleaving up to the preemption bound; at quiescence Ascend is complete and ordered",
		Assumptions: []string{"only ascending iteration exists in the API"},
		Budget:      budget(170*time.Second, 28*time.Minute),
		Bounds: func(tier string) map[string]any {
			if tier == "quick" {
				return map[string]any{"depth": "5 (empty), 4 (sparse-3)"}
			}
			return map[string]any{"depth": "6 (empty), 5 (sparse-3), 3 (block-edge)"}
		},
		Units: func(tier string) (units []eng.Unit) {
			specs := []c16Spec{{"empty", 5}, {"sparse-3", 4}}
			if tier != "quick" {
				specs = []c16Spec{{"empty", 6}, {"sparse-3", 5}, {"block-edge", 3}}
			}
			for _, s := range specs {
				s := s
				units = append(units, &eng.SeqSpec{UnitName: s.name(), Prop: "C16", Depth: s.depth, Split: 2, New: s.newState})
			}
			return append(units, c16SchedUnits(tier)...)
		},
	})
}
