package props

import (
	"fmt"
	"time"

	"colverif/eng"
	"colverif/model"
)

// ---------------------------------------------------------------------------
// C01 — committed values read back exactly, for every column kind and offset.
// SEQ: per kind K a schema {v:K, o:int}; every history up to depth d over the
// alphabet below, on every preset; after every step every reader of every live row
// must equal the model bit for bit.
// ---------------------------------------------------------------------------

type c01Spec struct {
	kind   string // kind name, or "expire"
	preset string
	cap    int
	late   bool // column v is created by an alphabet letter, after rows exist
	depth  int
	nvals  int
	nrows  int
}

func (s c01Spec) name() string {
	n := fmt.Sprintf("%s/%s/cap%d/d%d", s.kind, s.preset, s.cap, s.depth)
	if s.late {
		n += "/late-column"
	}
	return n
}

func (s c01Spec) vcol() string {
	if s.kind == "expire" {
		return model.ExpireCol
	}
	return "v"
}

func (s c01Spec) newState() eng.SeqState {
	cfg := model.Config{Capacity: s.cap, Cols: []model.ColDef{{Name: "o", Kind: "int"}}}
	isKey := s.kind == "key"
	if s.kind != "expire" && !s.late {
		cfg.Cols = append(cfg.Cols, model.ColDef{Name: "v", Kind: s.kind})
	}
	w := model.NewWorld(cfg)
	seed := []model.Write{{Col: "o", V: model.Val{N: 1}}}
	if isKey && (s.preset == "block-edge" || s.preset == "word-edge") {
		panic("keyed bulk presets are not used")
	}
	if isKey {
		// keyed collections cannot use plain inserts: seed through Replay with distinct keys
		switch s.preset {
		case "sparse-3":
			w.SeedReplay(map[uint32][]model.Write{
				5:         {{Col: "o", V: model.Val{N: 1}}, {Col: "v", V: model.Val{S: "s0"}}},
				16384 + 7: {{Col: "o", V: model.Val{N: 1}}, {Col: "v", V: model.Val{S: "s1"}}},
				32768 + 5: {{Col: "o", V: model.Val{N: 1}}, {Col: "v", V: model.Val{S: "s2"}}},
			})
		}
	} else {
		applyPreset(w, s.preset, seed)
	}
	return &worldState{w: w, ops: s.ops, check: func(w *model.World) []eng.Violation { return w.Check(model.Obs{Values: true}) }}
}

func (s c01Spec) write(v model.Val, merge bool) model.Write {
	if s.kind == "expire" {
		return model.Write{SetTTL: !merge, Extend: merge, TTL: time.Duration(int64(v.N))}
	}
	return model.Write{Col: "v", V: v, Merge: merge}
}

func (s c01Spec) ops(w *model.World) (out []opx) {
	k := w.M.Col(s.vcol())
	o1 := model.Write{Col: "o", V: model.Val{N: 1}}
	if k == nil {
		// the column does not exist yet: inserts without it, and the late creation
		out = append(out, txnOp(w, []model.Act{{Op: "insert", W: []model.Write{o1}}}, false))
		out = append(out, opx{label: "createColumn(v:" + s.kind + ")", run: func() []eng.Violation {
			if err := w.CreateColumn(model.ColDef{Name: "v", Kind: s.kind}); err != nil {
				return []eng.Violation{{Assert: "createcolumn", Witness: "CreateColumn failed", Detail: err.Error()}}
			}
			return nil
		}})
		for _, r := range firstRows(w, 1) {
			out = append(out, txnOp(w, []model.Act{{Op: "del", Off: r}}, false))
		}
		return out
	}
	vals, deltas := k.Values, k.Deltas
	if s.kind == "expire" {
		vals = []model.Val{{N: uint64(time.Hour)}, {N: 0}, {N: uint64(3 * time.Hour)}}
		deltas = []model.Val{{N: uint64(time.Minute)}}
	}
	nvals := s.nvals
	if s.kind == "enum" {
		nvals++ // the colliding pair takes two places; the empty string must be in every alphabet
	}
	if len(vals) > nvals {
		vals = vals[:nvals]
	}
	isKey := s.kind == "key"
	fresh := func(n int) model.Val { // n-th key not held by any live row
		for i := 0; ; i++ {
			key := fmt.Sprintf("k%d", i)
			if len(w.M.RowsOfKey(key)) == 0 {
				if n == 0 {
					return model.Val{S: key}
				}
				n--
			}
		}
	}
	rows := firstRows(w, s.nrows)
	// inserts
	if isKey {
		out = append(out, txnOp(w, []model.Act{{Op: "insertkey", Key: fresh(0).S, W: []model.Write{o1}}}, false))
	} else {
		for i, v := range vals {
			if i >= 2 {
				break
			}
			out = append(out, txnOp(w, []model.Act{{Op: "insert", W: []model.Write{o1, s.write(v, false)}}}, false))
		}
		out = append(out, txnOp(w, []model.Act{{Op: "insert", W: []model.Write{o1}}}, false))
		if k.Mergeable {
			out = append(out, txnOp(w, []model.Act{{Op: "insert", W: []model.Write{o1, s.write(deltas[0], true)}}}, false))
		}
	}
	// overwrites
	for _, r := range rows {
		if isKey {
			out = append(out, txnOp(w, []model.Act{{Op: "rekey", Key: w.M.Live[r].V["v"].S, NewKey: fresh(0).S}}, false))
			continue
		}
		for _, v := range vals {
			out = append(out, txnOp(w, []model.Act{{Op: "put", Off: r, W: []model.Write{s.write(v, false)}}}, false))
		}
	}
	// the untyped writers: Row.SetAny and Row.SetMany (one-key map)
	if !isKey && s.kind != "expire" && len(rows) > 0 {
		for _, v := range vals {
			out = append(out, txnOp(w, []model.Act{{Op: "put", Off: rows[0], W: []model.Write{{Col: "v", V: v, Via: "any"}}}}, false))
		}
		out = append(out, txnOp(w, []model.Act{{Op: "put", Off: rows[0], W: []model.Write{{Col: "v", V: vals[0], Via: "many"}}}}, false))
		out = append(out, txnOp(w, []model.Act{{Op: "insert", W: []model.Write{o1, {Col: "v", V: vals[len(vals)-1], Via: "any"}}}}, false))
	}
	// merges
	if k.Mergeable {
		for i, r := range rows {
			if i >= 2 {
				break
			}
			for _, d := range deltas {
				out = append(out, txnOp(w, []model.Act{{Op: "put", Off: r, W: []model.Write{s.write(d, true)}}}, false))
			}
		}
	}
	// deletes
	for i, r := range rows {
		if i >= 2 {
			break
		}
		out = append(out, txnOp(w, []model.Act{{Op: "del", Off: r}}, false))
	}
	// drop the column and create it again under the same name: every row then holds
	// nothing in it ("columns created after rows already exist")
	if !isKey && s.kind != "expire" {
		out = append(out, opx{label: "dropColumn(v)+createColumn(v:" + s.kind + ")", run: func() []eng.Violation {
			w.C.DropColumn("v")
			for i, c := range w.M.Cols {
				if c.Name == "v" {
					w.M.Cols = append(w.M.Cols[:i:i], w.M.Cols[i+1:]...)
					break
				}
			}
			for _, r := range w.M.Live {
				delete(r.V, "v")
			}
			delete(w.M.Ghost, "v")
			if err := w.CreateColumn(model.ColDef{Name: "v", Kind: s.kind}); err != nil {
				return []eng.Violation{{Assert: "createcolumn", Witness: "CreateColumn failed", Detail: err.Error()}}
			}
			return nil
		}})
	}
	if isKey || len(rows) == 0 {
		return out
	}
	// several writes to one row in one transaction
	r0 := rows[0]
	v0, v1 := vals[0], vals[len(vals)-1]
	out = append(out, txnOp(w, []model.Act{{Op: "put", Off: r0, W: []model.Write{s.write(v0, false), s.write(v1, false)}}}, false))
	if k.Mergeable {
		out = append(out, txnOp(w, []model.Act{{Op: "put", Off: r0, W: []model.Write{s.write(v0, false), s.write(deltas[0], true)}}}, false))
	}
	if k.Mergeable {
		out = append(out, txnOp(w, []model.Act{{Op: "put", Off: r0, W: []model.Write{s.write(deltas[0], true), s.write(v1, false)}}}, false))
	}
	// descending and ascending offsets in one transaction (spanning blocks when the
	// layout has them)
	if hi, ok := lastRow(w); ok && hi != r0 {
		if k.Mergeable {
			// every order of {merge row r0, overwrite row r0, write the far row} in one
			// transaction: the buffer then holds one, two or three sections for r0's block
			acts := []model.Act{
				{Op: "put", Off: r0, W: []model.Write{s.write(deltas[0], true)}},
				{Op: "put", Off: r0, W: []model.Write{s.write(v1, false)}},
				{Op: "put", Off: hi, W: []model.Write{s.write(v0, false)}},
			}
			for _, perm := range [][3]int{{0, 1, 2}, {0, 2, 1}, {1, 0, 2}, {1, 2, 0}, {2, 0, 1}, {2, 1, 0}} {
				o := txnOp(w, []model.Act{acts[perm[0]], acts[perm[1]], acts[perm[2]]}, false)
				if !k.Numeric && hi/16384 != r0/16384 && perm == [3]int{0, 2, 1} {
					o.tag = "variable-length merge; write in another block; overwrite of the merged row, one transaction"
				}
				out = append(out, o)
			}
		}
		// row markers interleaved across blocks: delete here, delete far away, insert (into
		// the lowest hole, i.e. usually the first block again) in one transaction
		out = append(out, txnOp(w, []model.Act{{Op: "del", Off: r0}, {Op: "del", Off: hi}, {Op: "insert", W: []model.Write{o1}}}, false))
		out = append(out, txnOp(w, []model.Act{{Op: "put", Off: hi, W: []model.Write{s.write(v0, false)}}, {Op: "put", Off: r0, W: []model.Write{s.write(v1, false)}}}, false))
		out = append(out, txnOp(w, []model.Act{{Op: "put", Off: r0, W: []model.Write{s.write(v0, false)}}, {Op: "put", Off: hi, W: []model.Write{s.write(v1, false)}}}, false))
	}
	return out
}

func c01Units(tier string) []eng.Unit {
	var specs []c01Spec
	kinds := append(append([]string{}, model.KindNames...), "expire")
	for _, kd := range kinds {
		if tier == "quick" {
			specs = append(specs,
				c01Spec{kind: kd, preset: "empty", cap: 1024, depth: 3, nvals: 3, nrows: 2},
				c01Spec{kind: kd, preset: "sparse-3", cap: 1024, depth: 3, nvals: 2, nrows: 3},
				c01Spec{kind: kd, preset: "empty", cap: 1, depth: 2, nvals: 3, nrows: 2},
				c01Spec{kind: kd, preset: "empty", cap: 64, depth: 2, nvals: 3, nrows: 2},
				c01Spec{kind: kd, preset: "empty", cap: 20000, depth: 2, nvals: 3, nrows: 2},
			)
			if kd != "key" {
				specs = append(specs, c01Spec{kind: kd, preset: "block-edge", cap: 1024, depth: 2, nvals: 2, nrows: 2})
			}
			if kd == "enum" || kd == "string" || kd == "record" {
				specs = append(specs, c01Spec{kind: kd, preset: "many-distinct", cap: 64, depth: 2, nvals: 2, nrows: 2})
			}
			if kd != "key" {
				specs = append(specs, c01Spec{kind: kd, preset: "dense-2+1", cap: 1024, depth: 3, nvals: 1, nrows: 2})
			}
			if kd != "expire" && kd != "key" {
				specs = append(specs,
					c01Spec{kind: kd, preset: "sparse-3", cap: 1024, depth: 3, nvals: 2, nrows: 3, late: true},
					c01Spec{kind: kd, preset: "empty", cap: 1, depth: 3, nvals: 2, nrows: 2, late: true})
			}
			continue
		}
		for _, cp := range []int{1, 64, 1024, 20000} {
			d := 4
			if cp == 1024 {
				d = 5
			}
			specs = append(specs, c01Spec{kind: kd, preset: "empty", cap: cp, depth: d, nvals: 4, nrows: 3})
			specs = append(specs, c01Spec{kind: kd, preset: "sparse-3", cap: cp, depth: 3, nvals: 3, nrows: 3})
			if kd != "key" {
				specs = append(specs, c01Spec{kind: kd, preset: "word-edge", cap: cp, depth: 3, nvals: 2, nrows: 2})
			}
		}
		specs = append(specs, c01Spec{kind: kd, preset: "sparse-3", cap: 1024, depth: 4, nvals: 3, nrows: 3})
		if kd != "key" {
			specs = append(specs, c01Spec{kind: kd, preset: "dense-2+1", cap: 1024, depth: 4, nvals: 2, nrows: 2})
		}
		if kd == "enum" || kd == "string" || kd == "record" {
			specs = append(specs, c01Spec{kind: kd, preset: "many-distinct", cap: 64, depth: 3, nvals: 3, nrows: 2})
		}
		if kd != "key" {
			specs = append(specs, c01Spec{kind: kd, preset: "block-edge", cap: 1024, depth: 3, nvals: 2, nrows: 2})
		}
		if kd != "expire" && kd != "key" {
			specs = append(specs,
				c01Spec{kind: kd, preset: "sparse-3", cap: 1024, depth: 4, nvals: 2, nrows: 3, late: true},
				c01Spec{kind: kd, preset: "block-edge", cap: 1024, depth: 3, nvals: 2, nrows: 2, late: true},
				c01Spec{kind: kd, preset: "empty", cap: 1, depth: 4, nvals: 2, nrows: 2, late: true})
		}
	}
	var units []eng.Unit
	for _, s := range specs {
		s := s
		split := 0
		if s.depth >= 4 {
			split = 1
		}
		units = append(units, &eng.SeqSpec{UnitName: s.name(), Prop: "C01", Depth: s.depth, Split: split, New: s.newState})
	}
	return units
}

func init() {
	eng.Register(&eng.Check{
		Prop:  "C01",
		Level: "model_checking",
		Rule: "every history up to depth d over {insert with/without value, merge-on-insert, overwrite, merge, delete (offset reuse), two writes to one row in one " +
			"transaction, descending/ascending writes across blocks, late column creation} for each of the 16 column kinds on each preset/capacity; after every step " +
			"every live row is read through the typed Row reader, the typed transaction reader and Row.Any and compared bit-for-bit with a map-based model; " +
			"states = distinct model states reached; non-trivial = at least one live row",
		Assumptions: []string{
			"values come from a per-kind alphabet of extremes (min/max, -1, NaN, -0, +Inf, smallest subnormal, empty and 65535-byte strings, a pair of enum strings with equal 32-bit xxh3 hash)",
			"bulk filler rows (block-edge preset) are compared on a sample of offsets incl. both sides of every block edge; all offsets are compared for existence",
			"not judged: writes to a row deleted in the same transaction",
		},
		Budget: budget(170*time.Second, 28*time.Minute),
		Bounds: func(tier string) map[string]any {
			if tier == "quick" {
				return map[string]any{"depth": "3 (empty, sparse-3, late column), 2 (other capacities, block-edge)", "kinds": 16, "capacities": []int{1, 64, 1024, 20000}}
			}
			return map[string]any{"depth": "5 (empty, default capacity), 4 (other capacities, sparse-3, late), 3 (word-edge, block-edge)", "kinds": 16, "capacities": []int{1, 64, 1024, 20000}}
		},
		Units: c01Units,
	})
}
