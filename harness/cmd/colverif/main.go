// colverif is the single binary behind every check in /verif:
//
//	colverif check <property> <quick|thorough>
//	colverif worker <property> <tier>        (internal)
//	colverif replay <file>
//	colverif list
package main

import (
	"fmt"
	"os"
	"sort"

	"colverif/eng"
	_ "colverif/props"
	shimtime "colverif/shim/time"
)

func main() {
	// no background pass of any collection ever runs on real time
	shimtime.Frozen = true
	if len(os.Args) < 2 {
		fmt.Fprintln(os.Stderr, "usage: colverif check <property> <tier> | replay <file> | list")
		os.Exit(2)
	}
	switch os.Args[1] {
	case "check":
		if len(os.Args) < 4 {
			os.Exit(2)
		}
		os.Exit(eng.RunCheck(os.Args[2], os.Args[3]))
	case "worker":
		eng.Worker(os.Args[2], os.Args[3])
	case "replay":
		os.Exit(eng.RunReplay(os.Args[2]))
	case "list":
		var ids []string
		for id := range eng.Checks {
			ids = append(ids, id)
		}
		sort.Strings(ids)
		for _, id := range ids {
			fmt.Println(id)
		}
	default:
		os.Exit(2)
	}
}
