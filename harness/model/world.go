package model

import (
	"bytes"
	"context"
	"errors"
	"fmt"
	"sort"
	"strings"
	"time"

	"colverif/eng"
	shimctx "colverif/shim/context"
	shimtime "colverif/shim/time"
	"colverif/vsched"

	"github.com/kelindar/column"
	"github.com/kelindar/column/commit"
)

// T0 is the start of virtual time.
var T0 = time.Unix(1_700_000_000, 0)

// Unit is the virtual time unit used by TTL alphabets.
const Unit = time.Second

const ExpireCol = "expire"

type ColDef struct{ Name, Kind string }

// IndexDef is a bitmap index from the catalogue.
type IndexDef struct {
	Name string
	Col  string
	Pred func(v Val) bool           // model predicate
	Rule func(r column.Reader) bool // implementation predicate
}

// Row is a model row: column name -> value (absent = no entry).
type Row struct{ V map[string]Val }

// Model is the reference model: plain maps.
type Model struct {
	Cols    []ColDef
	Live    map[uint32]*Row
	Ghost   map[string]map[uint32]Val // value a deleted row left behind at (col, offset)
	Indexes []*IndexDef
	KeyCol  string
}

func (m *Model) Col(name string) *KindDesc {
	if name == ExpireCol {
		return Kinds["int64"]
	}
	for _, c := range m.Cols {
		if c.Name == name {
			return Kinds[c.Kind]
		}
	}
	return nil
}

// Offsets returns the live offsets in ascending order.
func (m *Model) Offsets() []uint32 {
	out := make([]uint32, 0, len(m.Live))
	for o := range m.Live {
		out = append(out, o)
	}
	sort.Slice(out, func(i, j int) bool { return out[i] < out[j] })
	return out
}

// RowOfKey returns the live rows holding the key.
func (m *Model) RowsOfKey(key string) (out []uint32) {
	if m.KeyCol == "" {
		return nil
	}
	for _, o := range m.Offsets() {
		if v, ok := m.Live[o].V[m.KeyCol]; ok && v.S == key {
			out = append(out, o)
		}
	}
	return
}

// Key renders the model state canonically.
func (m *Model) Key(skipBulk func(uint32) bool) string {
	var sb strings.Builder
	for _, o := range m.Offsets() {
		if skipBulk != nil && skipBulk(o) {
			continue
		}
		fmt.Fprintf(&sb, "%d{", o)
		r := m.Live[o]
		names := make([]string, 0, len(r.V))
		for n := range r.V {
			names = append(names, n)
		}
		sort.Strings(names)
		for _, n := range names {
			v := r.V[n]
			if len(v.S) > 16 {
				fmt.Fprintf(&sb, "%s=%d:%x;", n, len(v.S), eng.Hash(v.S))
			} else {
				fmt.Fprintf(&sb, "%s=%x:%s;", n, v.N, v.S)
			}
		}
		sb.WriteString("}")
	}
	for _, c := range m.Cols {
		sb.WriteString("|" + c.Name)
	}
	for _, ix := range m.Indexes {
		sb.WriteString("#" + ix.Name)
	}
	return sb.String()
}

// Write is one buffered column write.
type Write struct {
	Col    string
	V      Val
	Via    string // "" typed setter, "any" Row.SetAny, "many" Row.SetMany with a one-key map
	Merge  bool
	TTL    time.Duration // with SetTTL / Extend
	SetTTL bool
	Extend bool
}

// Act is one action inside a transaction body.
type Act struct {
	Op     string // insert, put, del, bulk, insertkey, upsertkey, querykey, deletekey, rekey, delall
	Off    uint32
	W      []Write
	Key    string
	NewKey string
	N      int  // bulk: number of rows
	FailCb bool // insert callback returns an error (the body then returns it)
	// Swallow: with FailCb, the body ignores the insert's error and goes on. What
	// becomes of the failed insert's own offset is not fixed by the properties: the
	// model follows the implementation on that single point (see World.Txn) so that
	// the REST of such a transaction can be judged.
	Swallow bool
	Yield   bool // yield to the scheduler before this action (SCHED drivers)
	// Probe (Op "insert"): the insert callback first reads every column of its new row;
	// a row that was just created holds nothing, whatever its offset held before
	Probe bool
	// Call (Op "call"): something done from inside the body that is not part of the
	// transaction (schema changes such as CreateIndex while the transaction is open)
	Call func() error
}

func (a Act) String() string {
	var sb strings.Builder
	sb.WriteString(a.Op)
	switch a.Op {
	case "call":
		sb.WriteString(":" + a.Key)
	case "put", "del":
		fmt.Fprintf(&sb, "@%d", a.Off)
	case "bulk":
		fmt.Fprintf(&sb, "x%d", a.N)
	case "insertkey", "upsertkey", "querykey", "deletekey":
		sb.WriteString(":" + a.Key)
	case "rekey":
		sb.WriteString(":" + a.Key + "->" + a.NewKey)
	}
	if a.Probe {
		sb.WriteString("(reads-first)")
	}
	if a.FailCb {
		sb.WriteString("!cb-error")
	}
	if a.Swallow {
		sb.WriteString("(ignored)")
	}
	for _, w := range a.W {
		switch {
		case w.SetTTL:
			fmt.Fprintf(&sb, " ttl=%v", w.TTL)
		case w.Extend:
			fmt.Fprintf(&sb, " extend+=%v", w.TTL)
		default:
			op := "="
			if w.Merge {
				op = "+="
			}
			if w.Via != "" {
				op = "=(" + w.Via + ")"
			}
			k := Kinds["int64"]
			_ = k
			fmt.Fprintf(&sb, " %s%s%s", w.Col, op, shortVal(w.V))
		}
	}
	return sb.String()
}

func shortVal(v Val) string {
	if v.S != "" {
		if len(v.S) > 8 {
			return fmt.Sprintf("%q..%d", v.S[:4], len(v.S))
		}
		return fmt.Sprintf("%q", v.S)
	}
	return fmt.Sprintf("%d", int64(v.N))
}

func ActsString(acts []Act, fail bool) string {
	parts := make([]string, len(acts))
	for i, a := range acts {
		parts[i] = a.String()
	}
	s := "txn[" + strings.Join(parts, "; ") + "]"
	if fail {
		s += "->error"
	}
	return s
}

// Config describes a world.
type Config struct {
	Capacity int
	Cols     []ColDef
	Key      string   // name of the key column ("" = none)
	Indexes  []string // catalogue indexes created before any data
	Logger   string   // "", "channel", "codec", "log", "clone" (= channel, recorded synchronously)
	Daemon   bool     // own the background cleanup goroutine (C17)
	NoExpire bool
	Clock    *time.Time  // share the virtual clock of another world
	Sorted   [][2]string // sorted indexes {name, column} created before any data (twins keep them)
	Triggers [][2]string // triggers {name, column} with a counting callback, created before any data
}

// TrigEvent is one trigger callback.
type TrigEvent struct {
	Off    uint32
	Delete bool
	V      Val
}

// World is a real collection paired with its model.
type World struct {
	Cfg       Config
	C         *column.Collection
	M         *Model
	Commits   []commit.Commit // every commit emitted so far (deep copies), emission order
	Emitters  []int           // scheduler thread that emitted each commit (codec/log loggers only)
	Clock     *time.Time      // virtual clock (shared with twins)
	Daemon    *vsched.Daemon
	TrigLog   map[string]*[]TrigEvent
	Poisoned  bool // a panic happened inside the collection: never touch it again
	OwnReads  bool // inside a body, re-read what was just written: must still be the committed value
	Sched     bool // bodies run concurrently under the scheduler: the model is the INITIAL state, so checks against it are off
	Bulk      map[uint32]bool
	TrigCalls int // calls of the Config.Triggers callbacks
	ch        commit.Channel
	tick      chan time.Time
	recErr    error
}

var errBody = errors.New("verif: body error")
var errCb = errors.New("verif: insert callback error")

// IndexCatalogue holds the index definitions by name; column names follow the
// schema used by the specs (n:int, s:string, b:bool, e:enum).
var IndexCatalogue = map[string]IndexDef{
	"n>1":   {Name: "n>1", Col: "n", Pred: func(v Val) bool { return int64(v.N) > 1 }, Rule: func(r column.Reader) bool { return r.Int() > 1 }},
	"n>1#2": {Name: "n>1#2", Col: "n", Pred: func(v Val) bool { return int64(v.N) > 1 }, Rule: func(r column.Reader) bool { return r.Int() > 1 }},
	"n%2":   {Name: "n%2", Col: "n", Pred: func(v Val) bool { return int64(v.N)%2 == 0 }, Rule: func(r column.Reader) bool { return r.Int()%2 == 0 }},
	"s=a":   {Name: "s=a", Col: "s", Pred: func(v Val) bool { return v.S == "a" }, Rule: func(r column.Reader) bool { return r.String() == "a" }},
	"b=t":   {Name: "b=t", Col: "b", Pred: func(v Val) bool { return v.N != 0 }, Rule: func(r column.Reader) bool { return r.Bool() }},
	"e=x":   {Name: "e=x", Col: "e", Pred: func(v Val) bool { return v.S == "x" }, Rule: func(r column.Reader) bool { return r.String() == "x" }},
}

type recLogger struct {
	w    *World
	mode string
}

func (l recLogger) Append(c commit.Commit) error {
	switch l.mode {
	case "codec":
		var b bytes.Buffer
		if _, err := c.WriteTo(&b); err != nil {
			l.w.recErr = err
			return err
		}
		var out commit.Commit
		if _, err := out.ReadFrom(&b); err != nil {
			l.w.recErr = err
			return err
		}
		l.w.Commits = append(l.w.Commits, out)
		l.w.Emitters = append(l.w.Emitters, vsched.Self())
	case "clone":
		// what commit.Channel does (Append sends commit.Clone()), recorded in place so
		// that the emitting thread is known
		l.w.Commits = append(l.w.Commits, c.Clone())
		l.w.Emitters = append(l.w.Emitters, vsched.Self())
	case "log":
		var b bytes.Buffer
		lg := commit.Open(&b)
		if err := lg.Append(c); err != nil {
			l.w.recErr = err
			return err
		}
		n := 0
		err := commit.Open(&b).Range(func(out commit.Commit) error {
			l.w.Commits = append(l.w.Commits, out)
			l.w.Emitters = append(l.w.Emitters, vsched.Self())
			n++
			return nil
		})
		if err != nil || n != 1 {
			l.w.recErr = fmt.Errorf("log round trip of one commit delivered %d commits, err=%v", n, err)
		}
	}
	return nil
}

var daemonSeq int64

type daemonCtx struct {
	context.Context
	w *World
}

var closedCh = func() chan struct{} { c := make(chan struct{}); close(c); return c }()

func (c daemonCtx) Done() <-chan struct{} {
	if c.w.Daemon.Park() {
		select {
		case c.w.tick <- c.w.Now():
		default:
		}
		return nil
	}
	return closedCh
}

// NewWorld creates the collection and the empty model.
func NewWorld(cfg Config) *World {
	w := &World{Cfg: cfg, Clock: cfg.Clock, TrigLog: map[string]*[]TrigEvent{}, Bulk: map[uint32]bool{}}
	if w.Clock == nil {
		t0 := T0
		w.Clock = &t0
	}
	w.M = &Model{Live: map[uint32]*Row{}, Ghost: map[string]map[uint32]Val{}, KeyCol: cfg.Key}
	shimtime.NowHook = func() time.Time { return *w.Clock }
	opts := column.Options{Capacity: cfg.Capacity}
	switch cfg.Logger {
	case "channel":
		w.ch = make(commit.Channel, 4096)
		opts.Writer = w.ch
	case "codec", "log", "clone":
		opts.Writer = recLogger{w: w, mode: cfg.Logger}
	}
	if cfg.Daemon {
		w.Daemon = vsched.NewDaemon()
		w.tick = make(chan time.Time, 1)
		// each hook serves ONE call: the collection's own context and ticker. A library
		// that starts its cleanup goroutine lazily makes these calls later; the hooks then
		// stay installed until it does
		shimctx.WithCancelHook = func(parent shimctx.Context) (shimctx.Context, shimctx.CancelFunc) {
			shimctx.WithCancelHook = nil
			return daemonCtx{Context: parent, w: w}, func() { w.Daemon.Cancel() }
		}
		// the collection's cleanup interval is made unique so that its ticker can be told
		// from the tickers of other collections whose goroutines start around the same time
		daemonSeq++
		opts.Vacuum = 977*time.Hour + time.Duration(daemonSeq)*time.Nanosecond
		mine := opts.Vacuum
		shimtime.TickerHook = func(d time.Duration) *time.Ticker {
			if d != mine {
				return nil
			}
			shimtime.TickerHook = nil
			return &time.Ticker{C: w.tick}
		}
		w.C = column.NewCollection(opts)
		if w.Daemon.WaitParked() {
			shimctx.WithCancelHook = nil
			shimtime.TickerHook = nil
		}
	} else {
		// (a pending lazy hook of another world must not capture this collection)
		// The hook variables are WRITTEN only when such a hook is pending: the cleanup
		// goroutine that NewCollection starts reads them, and an unconditional write
		// here raced with that read in the race build (Corrections 19)
		if ch, th := shimctx.WithCancelHook, shimtime.TickerHook; ch != nil || th != nil {
			shimctx.WithCancelHook, shimtime.TickerHook = nil, nil
			w.C = column.NewCollection(opts)
			shimctx.WithCancelHook, shimtime.TickerHook = ch, th
		} else {
			w.C = column.NewCollection(opts)
		}
	}
	for _, c := range cfg.Cols {
		w.CreateColumn(c)
	}
	for _, ix := range cfg.Indexes {
		w.CreateIndex(ix)
	}
	for _, sx := range cfg.Sorted {
		if err := w.C.CreateSortIndex(sx[0], sx[1]); err != nil {
			panic(err)
		}
	}
	for _, tr := range cfg.Triggers {
		if err := w.C.CreateTrigger(tr[0], tr[1], func(r column.Reader) { w.TrigCalls++ }); err != nil {
			panic(err)
		}
	}
	return w
}

// Now is the current virtual time.
func (w *World) Now() time.Time { return *w.Clock }

// Advance moves the virtual clock.
func (w *World) Advance(d time.Duration) { *w.Clock = w.Clock.Add(d) }

// Close releases the collection (never called on a poisoned instance's locks).
func (w *World) Close() {
	if w.C != nil {
		w.C.Close()
	}
}

func (w *World) CreateColumn(c ColDef) error {
	k := Kinds[c.Kind]
	err := w.C.CreateColumn(c.Name, k.Make())
	if err == nil {
		w.M.Cols = append(w.M.Cols, c)
		if k.IsKey {
			w.M.KeyCol = c.Name
		}
	}
	return err
}

func (w *World) CreateIndex(name string) error {
	def := IndexCatalogue[name]
	err := w.C.CreateIndex(def.Name, def.Col, def.Rule)
	if err == nil {
		d := def
		w.M.Indexes = append(w.M.Indexes, &d)
	}
	return err
}

func (w *World) DropIndex(name string) error {
	err := w.C.DropIndex(name)
	if err == nil {
		for i, ix := range w.M.Indexes {
			if ix.Name == name {
				w.M.Indexes = append(w.M.Indexes[:i:i], w.M.Indexes[i+1:]...)
				break
			}
		}
	}
	return err
}

func (w *World) HasIndex(name string) bool {
	for _, ix := range w.M.Indexes {
		if ix.Name == name {
			return true
		}
	}
	return false
}

// Drain moves commits delivered through the channel logger into Commits.
func (w *World) Drain() {
	for w.ch != nil {
		select {
		case c := <-w.ch:
			w.Commits = append(w.Commits, c)
		default:
			return
		}
	}
}

// ---------------------------------------------------------------- transactions

// TxnRes is what a transaction returned and what the model expects of it.
type TxnRes struct {
	Inserted []uint32
	Err      error
	Viol     []eng.Violation
	Panic    any
	Blocks   []uint32 // blocks in which the transaction buffered at least one operation (committed transactions only)
	Emitted  int      // number of commits that reached the logger during the transaction

	emittedBase int
}

type pendWrite struct {
	off uint32
	w   Write
}

type pending struct {
	ins       []uint32
	del       []uint32
	writes    []pendWrite
	swallowed []uint32 // offsets of failed inserts whose error the body ignored
}

func (w *World) applyWrites(txn *column.Txn, r column.Row, off uint32, ws []Write, p *pending) {
	for _, x := range ws {
		switch {
		case x.SetTTL:
			r.SetTTL(x.TTL)
		case x.Extend:
			txn.TTL().Extend(x.TTL)
		case x.Merge:
			w.M.Col(x.Col).Merge(r, x.Col, x.V)
		case x.Via == "any":
			r.SetAny(x.Col, w.M.Col(x.Col).ToAny(x.V))
		case x.Via == "many":
			r.SetMany(map[string]any{x.Col: w.M.Col(x.Col).ToAny(x.V)})
		default:
			w.M.Col(x.Col).Set(r, x.Col, x.V)
		}
		p.writes = append(p.writes, pendWrite{off, x})
	}
}

// Body builds the transaction body for acts; effects are collected into p.
func (w *World) body(acts []Act, fail bool, p *pending, res *TxnRes) func(txn *column.Txn) error {
	return func(txn *column.Txn) error {
		touched := map[string]bool{}
		for _, a := range acts {
			if a.Yield {
				vsched.Yield()
			}
			switch a.Op {
			case "insert":
				off, err := txn.Insert(func(r column.Row) error {
					if a.Probe {
						for _, c := range w.M.Cols {
							k := w.M.Col(c.Name)
							if k.IsKey {
								continue
							}
							if v, ok := k.Read(r, c.Name); ok {
								res.Viol = append(res.Viol, eng.Violation{Assert: "insert/fresh-row-empty", Witness: "a new row already holds a value inside its own insert callback",
									Detail: fmt.Sprintf("insert at offset %d: column %q reads %s before the callback stored anything", r.Index(), c.Name, k.Show(v))})
							}
						}
					}
					w.applyWrites(txn, r, r.Index(), a.W, p)
					if a.FailCb {
						return errCb
					}
					return nil
				})
				if err != nil {
					// drop the writes of the failed insert from the pending set
					p.dropWritesAt(off)
					if a.Swallow {
						p.swallowed = append(p.swallowed, off)
						continue
					}
					return err
				}
				w.noteInsert(off, p, res)
			case "bulk":
				for i := 0; i < a.N; i++ {
					off, err := txn.Insert(func(r column.Row) error {
						w.applyWrites(txn, r, r.Index(), a.W, p)
						return nil
					})
					if err != nil {
						return err
					}
					w.noteInsert(off, p, res)
					w.Bulk[off] = true
				}
			case "put":
				if err := txn.QueryAt(a.Off, func(r column.Row) error {
					w.applyWrites(txn, r, a.Off, a.W, p)
					if w.OwnReads {
						w.ownReads(r, a.Off, a.W, res)
					}
					return nil
				}); err != nil {
					return err
				}
			case "del":
				_, live := w.M.Live[a.Off]
				if got := txn.DeleteAt(a.Off); got != live && !w.Sched {
					res.Viol = append(res.Viol, eng.Violation{Assert: "deleteat/result", Witness: "DeleteAt result differs from liveness",
						Detail: fmt.Sprintf("DeleteAt(%d) returned %v, row live=%v", a.Off, got, live)})
				}
				if live || w.Sched {
					p.del = append(p.del, a.Off)
				}
			case "delall":
				txn.DeleteAll()
				p.del = append(p.del, w.M.Offsets()...)
			case "insertkey", "upsertkey":
				rows := w.M.RowsOfKey(a.Key)
				exists := len(rows) > 0
				var got uint32
				called := false
				fn := func(r column.Row) error {
					called = true
					got = r.Index()
					w.applyWrites(txn, r, got, a.W, p)
					if a.FailCb {
						return errCb
					}
					return nil
				}
				var err error
				if a.Op == "insertkey" {
					err = txn.InsertKey(a.Key, fn)
				} else {
					err = txn.UpsertKey(a.Key, fn)
				}
				first := !touched[a.Key] && !w.Sched
				touched[a.Key] = true
				if a.FailCb && called {
					p.dropWritesAt(got)
					if err == nil {
						res.Viol = append(res.Viol, eng.Violation{Assert: "key/callback-error", Witness: a.Op + " swallowed the callback error", Detail: a.String()})
					}
					return errCb
				}
				if first {
					if a.Op == "insertkey" && (err != nil) != exists {
						res.Viol = append(res.Viol, eng.Violation{Assert: "key/insertkey-result", Witness: "InsertKey error differs from key existence",
							Detail: fmt.Sprintf("InsertKey(%q) err=%v, key exists=%v", a.Key, err, exists)})
					}
					if a.Op == "upsertkey" && err != nil {
						res.Viol = append(res.Viol, eng.Violation{Assert: "key/upsertkey-result", Witness: "UpsertKey failed", Detail: fmt.Sprintf("UpsertKey(%q) err=%v", a.Key, err)})
					}
					if exists && called && a.Op == "upsertkey" && got != rows[0] {
						res.Viol = append(res.Viol, eng.Violation{Assert: "key/upsert-row", Witness: "UpsertKey of an existing key reached another row",
							Detail: fmt.Sprintf("UpsertKey(%q) ran on offset %d, key is held by %v", a.Key, got, rows)})
					}
				}
				if err != nil {
					if a.Op == "insertkey" && exists {
						return err // duplicate: body returns the error, transaction rolls back
					}
					return err
				}
				if called {
					if _, live := w.M.Live[got]; !live {
						// new row
						w.noteInsert(got, p, res)
						p.writes = append(p.writes, pendWrite{got, Write{Col: w.M.KeyCol, V: Val{S: a.Key}}})
					}
				}
			case "querykey":
				rows := w.M.RowsOfKey(a.Key)
				var got uint32
				called := false
				err := txn.QueryKey(a.Key, func(r column.Row) error {
					called = true
					got = r.Index()
					w.applyWrites(txn, r, got, a.W, p)
					return nil
				})
				if !touched[a.Key] && !w.Sched {
					if (err != nil) != (len(rows) == 0) {
						res.Viol = append(res.Viol, eng.Violation{Assert: "key/querykey-result", Witness: "QueryKey error differs from key existence",
							Detail: fmt.Sprintf("QueryKey(%q) err=%v, rows holding key=%v", a.Key, err, rows)})
					} else if called && got != rows[0] {
						res.Viol = append(res.Viol, eng.Violation{Assert: "key/query-row", Witness: "QueryKey reached another row",
							Detail: fmt.Sprintf("QueryKey(%q) ran on offset %d, key is held by %v", a.Key, got, rows)})
					}
				}
				touched[a.Key] = true
				if err != nil {
					return err
				}
			case "rekey":
				rows := w.M.RowsOfKey(a.Key)
				taken := len(w.M.RowsOfKey(a.NewKey)) > 0
				err := txn.QueryKey(a.Key, func(r column.Row) error {
					r.SetKey(a.NewKey)
					if !taken || touched[a.NewKey] {
						// the model follows the implementation's documented rule: the write
						// is refused when the new key exists in the committed table
					}
					return nil
				})
				if !touched[a.Key] && !w.Sched && (err != nil) != (len(rows) == 0) {
					res.Viol = append(res.Viol, eng.Violation{Assert: "key/querykey-result", Witness: "QueryKey error differs from key existence",
						Detail: fmt.Sprintf("QueryKey(%q) for re-key err=%v, rows=%v", a.Key, err, rows)})
				}
				touched[a.Key], touched[a.NewKey] = true, true
				if err != nil {
					return err
				}
				if len(rows) > 0 && !taken {
					p.writes = append(p.writes, pendWrite{rows[0], Write{Col: w.M.KeyCol, V: Val{S: a.NewKey}}})
				}
			case "deletekey":
				rows := w.M.RowsOfKey(a.Key)
				err := txn.DeleteKey(a.Key)
				if !touched[a.Key] && !w.Sched && (err != nil) != (len(rows) == 0) {
					res.Viol = append(res.Viol, eng.Violation{Assert: "key/deletekey-result", Witness: "DeleteKey error differs from key existence",
						Detail: fmt.Sprintf("DeleteKey(%q) err=%v, rows holding key=%v", a.Key, err, rows)})
				}
				touched[a.Key] = true
				if err != nil {
					return err
				}
				if len(rows) > 0 {
					p.del = append(p.del, rows[0])
				}
			case "call":
				if err := a.Call(); err != nil {
					res.Viol = append(res.Viol, eng.Violation{Assert: "call/error", Witness: a.Key + " failed inside a transaction body", Detail: err.Error()})
				}
			default:
				panic("unknown act " + a.Op)
			}
		}
		if fail {
			return errBody
		}
		return nil
	}
}

// ownReads re-reads, inside the body, the columns just written: a transaction's own
// reads keep returning the committed values until it commits.
func (w *World) ownReads(r column.Row, off uint32, ws []Write, res *TxnRes) {
	row := w.M.Live[off]
	if row == nil {
		return
	}
	for _, x := range ws {
		col := x.Col
		if x.SetTTL || x.Extend {
			col = ExpireCol
		}
		k := w.M.Col(col)
		if k == nil || k.IsKey {
			continue
		}
		got, ok := k.Read(r, col)
		want, wok := row.V[col]
		if ok != wok || (ok && got != want) {
			res.Viol = append(res.Viol, eng.Violation{Assert: "atomic/own-read", Witness: "a read inside the body returns something other than the committed value",
				Detail: fmt.Sprintf("row %d column %q read inside the body after writing it: %s/%v, committed %s/%v", off, col, k.Show(got), ok, k.Show(want), wok)})
		}
	}
}

func (p *pending) dropWritesAt(off uint32) {
	out := p.writes[:0]
	for _, x := range p.writes {
		if x.off != off {
			out = append(out, x)
		}
	}
	p.writes = out
}

func (w *World) noteInsert(off uint32, p *pending, res *TxnRes) {
	if _, live := w.M.Live[off]; live && !w.Sched {
		res.Viol = append(res.Viol, eng.Violation{Assert: "insert/offset-free", Witness: "insert returned the offset of a live row",
			Detail: fmt.Sprintf("insert returned offset %d which holds a live row", off)})
	}
	for _, o := range p.ins {
		if o == off {
			res.Viol = append(res.Viol, eng.Violation{Assert: "insert/offset-free", Witness: "two inserts of one transaction got the same offset",
				Detail: fmt.Sprintf("offset %d returned twice", off)})
		}
	}
	p.ins = append(p.ins, off)
	res.Inserted = append(res.Inserted, off)
}

// Txn runs a transaction body on the real collection and, if it commits, applies
// the same changes to the model.
func (w *World) Txn(acts []Act, fail bool) (res TxnRes) {
	var p pending
	w.Drain()
	res.emittedBase = len(w.Commits)
	func() {
		defer func() {
			if r := recover(); r != nil {
				res.Panic = r
				w.Poisoned = true
				res.Viol = append(res.Viol, eng.Violation{Assert: "no-panic", Witness: "panic in transaction", Detail: fmt.Sprintf("%s: panic: %v", ActsString(acts, fail), r)})
			}
		}()
		res.Err = w.C.Query(w.body(acts, fail, &p, &res))
	}()
	if res.Panic != nil {
		return res
	}
	if res.Err == nil {
		w.ApplyPending(&p)
		res.Blocks = p.blocks()
		// unspecified point: does the offset of a failed insert whose error was ignored
		// hold an (empty) row after the commit? The model takes the implementation's answer.
		for _, off := range p.swallowed {
			if _, live := w.M.Live[off]; live {
				continue
			}
			isLive := false
			w.C.Query(func(txn *column.Txn) error {
				return txn.Range(func(i uint32) {
					if i == off {
						isLive = true
					}
				})
			})
			if isLive {
				// ... and with whatever values the implementation kept for it
				row := &Row{V: map[string]Val{}}
				cols := append([]ColDef{}, w.M.Cols...)
				if !w.Cfg.NoExpire {
					cols = append(cols, ColDef{Name: ExpireCol, Kind: "int64"})
				}
				w.C.QueryAt(off, func(r column.Row) error {
					for _, c := range cols {
						if v, ok := w.M.Col(c.Name).Read(r, c.Name); ok {
							row.V[c.Name] = v
						}
					}
					return nil
				})
				w.M.Live[off] = row
			}
			res.Blocks = appendBlock(res.Blocks, off>>14)
		}
	}
	w.Drain()
	res.Emitted = len(w.Commits) - res.emittedBase
	return res
}

func appendBlock(bs []uint32, b uint32) []uint32 {
	for _, x := range bs {
		if x == b {
			return bs
		}
	}
	bs = append(bs, b)
	sort.Slice(bs, func(i, j int) bool { return bs[i] < bs[j] })
	return bs
}

// blocks lists, ascending, the blocks in which operations were buffered.
func (p *pending) blocks() []uint32 {
	m := map[uint32]bool{}
	for _, o := range p.ins {
		m[o>>14] = true
	}
	for _, o := range p.del {
		m[o>>14] = true
	}
	for _, x := range p.writes {
		m[x.off>>14] = true
	}
	out := make([]uint32, 0, len(m))
	for b := range m {
		out = append(out, b)
	}
	sort.Slice(out, func(i, j int) bool { return out[i] < out[j] })
	return out
}

// ApplyPending applies the effects of a committed transaction to the model in the
// documented order: row markers first, then column writes in issue order.
func (w *World) ApplyPending(p *pending) { w.ApplyPendingTo(w.M, p, nil) }

// ApplyPendingTo applies the effects to model m; with only != nil just the part
// that lies in the listed blocks (a multi-block transaction commits block by block).
func (w *World) ApplyPendingTo(m *Model, p *pending, only map[uint32]bool) {
	if only != nil {
		q := &pending{}
		for _, o := range p.ins {
			if only[o>>14] {
				q.ins = append(q.ins, o)
			}
		}
		for _, o := range p.del {
			if only[o>>14] {
				q.del = append(q.del, o)
			}
		}
		for _, x := range p.writes {
			if only[x.off>>14] {
				q.writes = append(q.writes, x)
			}
		}
		p = q
	}
	for _, off := range p.del {
		if r, ok := m.Live[off]; ok {
			for col, v := range r.V {
				if m.Ghost[col] == nil {
					m.Ghost[col] = map[uint32]Val{}
				}
				m.Ghost[col][off] = v
			}
			delete(m.Live, off)
			delete(w.Bulk, off)
		}
	}
	for _, off := range p.ins {
		m.Live[off] = &Row{V: map[string]Val{}}
	}
	for _, pw := range p.writes {
		r := m.Live[pw.off]
		x := pw.w
		if r == nil {
			// a write to a row that is not (or no longer) live stores nothing; what the
			// implementation may leave behind at that offset is remembered for the witness
			if !x.Merge && !x.SetTTL && !x.Extend && x.Col != "" {
				if m.Ghost[x.Col] == nil {
					m.Ghost[x.Col] = map[uint32]Val{}
				}
				m.Ghost[x.Col][pw.off] = x.V
			}
			continue
		}
		switch {
		case x.SetTTL:
			var n int64
			if x.TTL > 0 {
				n = w.Now().Add(x.TTL).UnixNano()
			}
			r.V[ExpireCol] = Val{N: uint64(n)}
		case x.Extend:
			old := r.V[ExpireCol]
			r.V[ExpireCol] = Val{N: uint64(int64(old.N) + x.TTL.Nanoseconds())}
		case x.Merge:
			k := m.Col(x.Col)
			old := r.V[x.Col] // zero value when absent
			r.V[x.Col] = k.MergeFn(old, x.V)
		default:
			k := m.Col(x.Col)
			if k.IsBool && x.V.N == 0 {
				delete(r.V, x.Col)
			} else {
				r.V[x.Col] = x.V
			}
		}
		if g := m.Ghost[x.Col]; g != nil && !x.Merge && !x.Extend {
			delete(g, pw.off)
		}
	}
}

// NewPending exposes the pending-effects record for SCHED drivers, which run the
// body themselves inside a thread.
type Pending = pending

// Body is the exported form of body for SCHED drivers.
func (w *World) Body(acts []Act, fail bool, p *Pending, res *TxnRes) func(txn *column.Txn) error {
	return w.body(acts, fail, p, res)
}

// SeedReplay creates rows at chosen offsets through Collection.Replay of a
// hand-built commit (the path replicas use), one commit per block.
func (w *World) SeedReplay(rows map[uint32][]Write) error {
	byChunk := map[commit.Chunk][]uint32{}
	for off := range rows {
		c := commit.ChunkAt(off)
		byChunk[c] = append(byChunk[c], off)
	}
	var chunks []commit.Chunk
	for c := range byChunk {
		chunks = append(chunks, c)
	}
	sort.Slice(chunks, func(i, j int) bool { return chunks[i] < chunks[j] })
	var p pending
	for _, c := range chunks {
		offs := byChunk[c]
		sort.Slice(offs, func(i, j int) bool { return offs[i] < offs[j] })
		bufs := map[string]*commit.Buffer{}
		var order []string
		get := func(col string) *commit.Buffer {
			if b, ok := bufs[col]; ok {
				return b
			}
			b := commit.NewBuffer(64)
			b.Reset(col)
			bufs[col] = b
			order = append(order, col)
			return b
		}
		for _, off := range offs {
			get("row").PutOperation(commit.Insert, off)
			p.ins = append(p.ins, off)
			for _, x := range rows[off] {
				k := w.M.Col(x.Col)
				b := get(x.Col)
				switch {
				case k.IsBool:
					b.PutBool(off, x.V.N != 0)
				case k.Numeric:
					b.PutAny(commit.Put, off, k.ToAny(x.V))
				default:
					b.PutString(commit.Put, off, x.V.S)
				}
				p.writes = append(p.writes, pendWrite{off, x})
			}
		}
		cm := commit.Commit{ID: commit.Next(), Chunk: c}
		for _, col := range order {
			cm.Updates = append(cm.Updates, bufs[col])
		}
		if err := w.C.Replay(cm); err != nil {
			return err
		}
	}
	w.ApplyPending(&p)
	w.Drain()
	return nil
}

// CloneCommit deep-copies a commit through the codec (Replay hands the caller's
// buffers to the transaction pool, so nothing may be replayed twice).
func CloneCommit(c commit.Commit) commit.Commit {
	var b bytes.Buffer
	c.WriteTo(&b)
	var out commit.Commit
	out.ReadFrom(&b)
	return out
}

// ---------------------------------------------------------------- replicas and restores

// Snapshot takes a snapshot of the real collection.
func (w *World) Snapshot() ([]byte, error) {
	var b bytes.Buffer
	err := w.C.Snapshot(&b)
	return b.Bytes(), err
}

// Twin creates a second world with the same schema whose model IS this world's
// model: observations of the twin are compared with what this world's model says.
// Indexes are created before (early) or left to the caller (late creation = back-fill).
func (w *World) Twin(cfg Config, withIndexes bool) *World {
	cfg.Cols = append([]ColDef{}, w.M.Cols...)
	cfg.Indexes = nil
	cfg.Logger = ""
	cfg.Clock = w.Clock
	t := NewWorld(cfg)
	if withIndexes {
		for _, ix := range w.M.Indexes {
			t.C.CreateIndex(ix.Name, ix.Col, ix.Rule)
		}
	}
	t.M = w.M
	t.Bulk = w.Bulk
	return t
}

// CreateModelIndexes creates on the twin every index the shared model lists.
func (t *World) CreateModelIndexes() {
	for _, ix := range t.M.Indexes {
		t.C.CreateIndex(ix.Name, ix.Col, ix.Rule)
	}
}

// ReplayInto replays commits [from:] of this world, in emission order, into t.
func (w *World) ReplayInto(t *World, from int) error {
	for _, c := range w.Commits[from:] {
		// (Replay hands the buffers it is given to the transaction pool: always a copy.)
		// A commit that came through the channel logger is replayed as the consumer got
		// it - Commit.Clone keeps the buffers whole - and not through the codec, which
		// would reduce it to its own block
		cp := CloneCommit(c)
		if w.Cfg.Logger == "channel" || w.Cfg.Logger == "clone" {
			cp = c.Clone()
		}
		if err := t.C.Replay(cp); err != nil {
			return err
		}
	}
	return nil
}

// RecErr reports a failure of the recording logger's own round trip.
func (w *World) RecErr() error { return w.recErr }

// Clone deep-copies the rows of a model (schema and index definitions are shared).
func (m *Model) Clone() *Model {
	c := &Model{Cols: m.Cols, Indexes: m.Indexes, KeyCol: m.KeyCol, Live: map[uint32]*Row{}, Ghost: map[string]map[uint32]Val{}}
	for off, r := range m.Live {
		nr := &Row{V: make(map[string]Val, len(r.V))}
		for k, v := range r.V {
			nr.V[k] = v
		}
		c.Live[off] = nr
	}
	return c
}

// Mix returns a model whose rows in the listed blocks come from next and all
// others from prev (commits are per block, so a multi-block transaction applied up
// to some block is exactly such a mix).
func Mix(prev, next *Model, fromNext map[uint32]bool) *Model {
	c := &Model{Cols: next.Cols, Indexes: next.Indexes, KeyCol: next.KeyCol, Live: map[uint32]*Row{}, Ghost: map[string]map[uint32]Val{}}
	for off, r := range prev.Live {
		if !fromNext[off>>14] {
			c.Live[off] = r
		}
	}
	for off, r := range next.Live {
		if fromNext[off>>14] {
			c.Live[off] = r
		}
	}
	return c
}

// PendingBlocks lists the blocks in which a body buffered operations.
func PendingBlocks(p *Pending) []uint32 { return p.blocks() }
