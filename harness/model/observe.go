package model

import (
	"fmt"
	"sort"

	"colverif/eng"

	"github.com/kelindar/column"
	"github.com/zeebo/xxh3"
)

// Obs selects what Check compares.
type Obs struct {
	Values  bool     // typed Row readers, typed txn readers and Row.Any for every focus row
	Indexes bool     // With(index) selection and Row.Bool(index)
	Keys    []string // key alphabet for lookups (nil = skip)
	TTL     bool
}

// focus tells whether the values of a row are compared (bulk rows are sampled).
func (w *World) focus(offs []uint32) map[uint32]bool {
	f := map[uint32]bool{}
	var bulk []uint32
	for _, o := range offs {
		if w.Bulk[o] {
			bulk = append(bulk, o)
		} else {
			f[o] = true
		}
	}
	if n := len(bulk); n > 0 {
		for _, i := range []int{0, 1, n / 3, n / 2, n - 2, n - 1} {
			if i >= 0 && i < n {
				f[bulk[i]] = true
			}
		}
		// both sides of every 64-bit word edge next to non-bulk rows are covered by
		// the non-bulk rows themselves; add the block edges
		for _, o := range bulk {
			if o%16384 == 0 || o%16384 == 16383 {
				f[o] = true
			}
		}
	}
	return f
}

func u32s(xs []uint32) string {
	if len(xs) > 12 {
		return fmt.Sprintf("%v..%v(%d offsets)", xs[:6], xs[len(xs)-3:], len(xs))
	}
	return fmt.Sprint(xs)
}

func sameU32(a, b []uint32) bool {
	if len(a) != len(b) {
		return false
	}
	for i := range a {
		if a[i] != b[i] {
			return false
		}
	}
	return true
}

// Check observes the collection through its public API, in fresh transactions,
// and compares with the model.
func (w *World) Check(o Obs) (vs []eng.Violation) {
	if w.Poisoned {
		return nil
	}
	defer func() {
		if r := recover(); r != nil {
			w.Poisoned = true
			vs = append(vs, eng.Violation{Assert: "no-panic", Witness: "panic while reading", Detail: fmt.Sprintf("panic during observation: %v", r)})
		}
	}()
	m := w.M
	offs := m.Offsets()
	if got := w.C.Count(); got != len(offs) {
		vs = append(vs, eng.Violation{Assert: "count", Witness: "Collection.Count differs from number of live rows",
			Detail: fmt.Sprintf("Count()=%d, model has %d live rows %s", got, len(offs), u32s(offs))})
	}
	focus := w.focus(offs)
	cols := append([]ColDef{}, m.Cols...)
	if !w.Cfg.NoExpire {
		cols = append(cols, ColDef{Name: ExpireCol, Kind: "int64"})
	}

	// iteration: offsets, order, cursor, typed txn readers
	var ranged []uint32
	w.C.Query(func(txn *column.Txn) error {
		if got := txn.Count(); got != len(offs) {
			vs = append(vs, eng.Violation{Assert: "txn-count", Witness: "Txn.Count differs from number of live rows",
				Detail: fmt.Sprintf("Txn.Count()=%d, model has %d live rows", got, len(offs))})
		}
		return txn.Range(func(idx uint32) {
			ranged = append(ranged, idx)
			if txn.Index() != idx {
				vs = append(vs, eng.Violation{Assert: "range/cursor", Witness: "cursor differs from visited offset", Detail: fmt.Sprintf("Index()=%d at %d", txn.Index(), idx)})
			}
			if !o.Values || !focus[idx] {
				return
			}
			row := m.Live[idx]
			if row == nil {
				return
			}
			for _, c := range cols {
				k := m.Col(c.Name)
				got, ok := k.ReadTxn(txn, c.Name)
				want, wok := row.V[c.Name]
				if ok != wok || (ok && got != want) {
					vs = append(vs, w.valueViolation("value/txn-reader", idx, c, got, ok, want, wok))
				}
			}
		})
	})
	if !sameU32(ranged, offs) {
		sorted := sort.SliceIsSorted(ranged, func(i, j int) bool { return ranged[i] < ranged[j] })
		wit := "Range visits a different set of rows than the live rows"
		if !sorted {
			wit = "Range not in ascending order"
		}
		vs = append(vs, eng.Violation{Assert: "range/offsets", Witness: wit,
			Detail: fmt.Sprintf("Range visited %s, live rows are %s", u32s(ranged), u32s(offs))})
	}

	// point reads
	if o.Values {
		for _, off := range offs {
			if !focus[off] {
				continue
			}
			row := m.Live[off]
			w.C.QueryAt(off, func(r column.Row) error {
				for _, c := range cols {
					k := m.Col(c.Name)
					want, wok := row.V[c.Name]
					got, ok := k.Read(r, c.Name)
					if ok != wok || (ok && got != want) {
						vs = append(vs, w.valueViolation("value/row-reader", off, c, got, ok, want, wok))
					}
					a, aok := r.Any(c.Name)
					var av Val
					if aok {
						av, aok = k.FromAny(a)
					}
					if aok != wok || (aok && av != want) {
						vs = append(vs, w.valueViolation("value/any", off, c, av, aok, want, wok))
					}
				}
				return nil
			})
		}
	}

	if o.Indexes {
		for _, ix := range m.Indexes {
			var want []uint32
			for _, off := range offs {
				if v, ok := m.Live[off].V[ix.Col]; ok && ix.Pred(v) {
					want = append(want, off)
				}
			}
			var got []uint32
			w.C.Query(func(txn *column.Txn) error {
				return txn.With(ix.Name).Range(func(idx uint32) { got = append(got, idx) })
			})
			if !sameU32(got, want) {
				vs = append(vs, eng.Violation{Assert: "index/with", Witness: w.indexWitness(ix, got, want),
					Detail: fmt.Sprintf("index %q on %q: With selects %s, predicate holds on live rows %s", ix.Name, ix.Col, u32s(got), u32s(want))})
				continue
			}
			wantSet := map[uint32]bool{}
			for _, x := range want {
				wantSet[x] = true
			}
			for _, off := range offs {
				if !focus[off] {
					continue
				}
				w.C.QueryAt(off, func(r column.Row) error {
					if b := r.Bool(ix.Name); b != wantSet[off] {
						vs = append(vs, eng.Violation{Assert: "index/bool", Witness: "Row.Bool(index) differs from predicate",
							Detail: fmt.Sprintf("index %q: Row.Bool at %d = %v, predicate = %v", ix.Name, off, b, wantSet[off])})
					}
					return nil
				})
			}
		}
	}

	if o.Indexes {
		for _, sx := range w.Cfg.Sorted {
			vs = append(vs, w.checkSorted(sx[0], sx[1], offs)...)
		}
	}

	if o.Keys != nil && m.KeyCol != "" {
		for _, key := range o.Keys {
			rows := m.RowsOfKey(key)
			var got uint32
			var gotKey string
			called := false
			err := w.C.QueryKey(key, func(r column.Row) error {
				called = true
				got = r.Index()
				gotKey, _ = r.Key()
				return nil
			})
			switch {
			case len(rows) > 1:
				vs = append(vs, eng.Violation{Assert: "key/unique", Witness: "two live rows hold one key",
					Detail: fmt.Sprintf("key %q is held by live rows %v", key, rows)})
			case len(rows) == 0 && err == nil:
				vs = append(vs, eng.Violation{Assert: "key/lookup", Witness: "a key held by no live row still resolves",
					Detail: fmt.Sprintf("QueryKey(%q) succeeded on offset %d (Row.Key()=%q) but no live row holds the key", key, got, gotKey)})
			case len(rows) == 1 && err != nil:
				vs = append(vs, eng.Violation{Assert: "key/lookup", Witness: "the key of a live row does not resolve",
					Detail: fmt.Sprintf("QueryKey(%q) failed (%v) but live row %d holds the key", key, err, rows[0])})
			case len(rows) == 1 && called && (got != rows[0] || gotKey != key):
				vs = append(vs, eng.Violation{Assert: "key/lookup", Witness: "lookup reaches a row whose key it is not",
					Detail: fmt.Sprintf("QueryKey(%q) reached offset %d with Row.Key()=%q; the key is held by row %d", key, got, gotKey, rows[0])})
			}
		}
	}
	return vs
}

func (w *World) valueViolation(assert string, off uint32, c ColDef, got Val, ok bool, want Val, wok bool) eng.Violation {
	k := w.M.Col(c.Name)
	gs, ws := "absent", "absent"
	if ok {
		gs = k.Show(got)
	}
	if wok {
		ws = k.Show(want)
	}
	wit := "value read differs from the value committed"
	if c.Kind == "enum" && ok && wok && got.S != want.S && uint32(xxh3.HashString(got.S)) == uint32(xxh3.HashString(want.S)) {
		wit = "enum string reads back as another string with the same 32-bit hash"
	}
	if g, has := w.M.Ghost[c.Name][off]; has && ok {
		// what a previous occupant of this offset left behind
		if !wok && got == g {
			wit = "reused offset exposes the previous occupant's value"
		} else if k.MergeFn != nil {
			wit = "value at a reused offset differs (previous occupant left data behind)"
		}
	}
	return eng.Violation{Assert: assert, Witness: wit,
		Detail: fmt.Sprintf("row %d column %q (%s): read %s, committed %s", off, c.Name, c.Kind, gs, ws)}
}

func (w *World) indexWitness(ix *IndexDef, got, want []uint32) string {
	return "index selection differs from predicate over current values"
}

// RowsWith lists live offsets whose model value in col satisfies pred.
func (m *Model) RowsWith(col string, pred func(Val) bool) (out []uint32) {
	for _, off := range m.Offsets() {
		if v, ok := m.Live[off].V[col]; ok && pred(v) {
			out = append(out, off)
		}
	}
	return
}

// PointRead runs one transaction that does nothing but point reads (every column of
// the first live row through the Row getters). The SEQ letters run it before their
// own work, so that the hidden state such a transaction leaves in the pooled Txn
// objects is the same whether a state was reached in place or rebuilt by replay.
func (w *World) PointRead() {
	if w.Poisoned {
		return
	}
	defer func() {
		if r := recover(); r != nil {
			// a panic here is reported by the next checked observation
		}
	}()
	offs := w.M.Offsets()
	if len(offs) == 0 {
		return
	}
	cols := append([]ColDef{}, w.M.Cols...)
	if !w.Cfg.NoExpire {
		cols = append(cols, ColDef{Name: ExpireCol, Kind: "int64"})
	}
	w.C.QueryAt(offs[0], func(r column.Row) error {
		for _, c := range cols {
			w.M.Col(c.Name).Read(r, c.Name)
		}
		return nil
	})
}

// checkSorted: ascending iteration over a sorted index visits exactly the live rows
// holding a value in the column, once each, values non-decreasing.
func (w *World) checkSorted(name, col string, offs []uint32) (vs []eng.Violation) {
	var want []uint32
	for _, off := range offs {
		if _, ok := w.M.Live[off].V[col]; ok {
			want = append(want, off)
		}
	}
	var got []uint32
	var vals []string
	w.C.Query(func(txn *column.Txn) error {
		rd := txn.String(col)
		return txn.Ascend(name, func(idx uint32) {
			got = append(got, idx)
			v, _ := rd.Get()
			vals = append(vals, v)
		})
	})
	gs := append([]uint32{}, got...)
	sort.Slice(gs, func(i, j int) bool { return gs[i] < gs[j] })
	if !sameU32(gs, want) {
		return []eng.Violation{{Assert: "sorted/complete", Witness: "Ascend visits a different set of rows than the rows holding a value",
			Detail: fmt.Sprintf("sorted index %q on %q: Ascend visited %s, rows holding a value: %s", name, col, u32s(got), u32s(want))}}
	}
	if !sort.StringsAreSorted(vals) {
		n := len(vals)
		if n > 12 {
			n = 12
		}
		vs = append(vs, eng.Violation{Assert: "sorted/order", Witness: "values not in non-decreasing order",
			Detail: fmt.Sprintf("sorted index %q on %q: Ascend visited %s with values %q..", name, col, u32s(got), vals[:n])})
	}
	return vs
}
