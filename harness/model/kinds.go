// Package model holds the reference model of a collection (plain maps), the
// per-kind accessors that drive the real public API, and World, which pairs a
// real collection with its model and applies every operation to both.
package model

import (
	"encoding/binary"
	"fmt"
	"math"
	"strings"

	"colverif/vsched"

	"github.com/kelindar/column"
	"github.com/zeebo/xxh3"
)

// Val is a column value: numbers as the bit pattern of their Go type (signed
// integers sign-extended), strings/bytes in S. Floats are compared by bits.
type Val struct {
	N uint64
	S string
}

// KindDesc describes one column kind: how to create it, write and read it through
// the public API, and how the model merges.
type KindDesc struct {
	Name      string
	Numeric   bool
	Textual   bool
	Mergeable bool
	Float     bool
	Signed    bool
	Bits      int
	IsBool    bool
	IsKey     bool
	Make      func() column.Column
	Set       func(r column.Row, col string, v Val)
	Merge     func(r column.Row, col string, v Val)
	Read      func(r column.Row, col string) (Val, bool)
	ReadTxn   func(t *column.Txn, col string) (Val, bool)
	FromAny   func(a any) (Val, bool)
	ToAny     func(v Val) any
	MergeFn   func(old, d Val) Val
	Sum       func(t *column.Txn, col string) Val
	Avg       func(t *column.Txn, col string) float64
	Min       func(t *column.Txn, col string) (Val, bool)
	Max       func(t *column.Txn, col string) (Val, bool)
	Less      func(a, b Val) bool
	AsFloat   func(v Val) float64
	AsInt     func(v Val) int64
	AsUint    func(v Val) uint64
	Add       func(a, b Val) Val
	Values    []Val // value alphabet (an ordinary value, zero / empty, then the extremes)
	Deltas    []Val // merge deltas
}

// Show renders a value of this kind.
func (k *KindDesc) Show(v Val) string {
	switch {
	case k.IsBool:
		return fmt.Sprint(v.N != 0)
	case k.Float && k.Bits == 32:
		return fmt.Sprintf("%v(0x%08x)", math.Float32frombits(uint32(v.N)), uint32(v.N))
	case k.Float:
		return fmt.Sprintf("%v(0x%016x)", math.Float64frombits(v.N), v.N)
	case k.Numeric && k.Signed:
		return fmt.Sprint(int64(v.N))
	case k.Numeric:
		return fmt.Sprint(v.N)
	}
	if len(v.S) > 24 {
		return fmt.Sprintf("%q..(%d bytes)", v.S[:12], len(v.S))
	}
	return fmt.Sprintf("%q", v.S)
}

// Rec is the record type used for record columns: an opaque byte string whose
// merge is concatenation (order-sensitive, changes length).
type Rec struct{ B []byte }

func (r *Rec) MarshalBinary() ([]byte, error) { return append([]byte{}, r.B...), nil }
func (r *Rec) UnmarshalBinary(b []byte) error { r.B = append([]byte{}, b...); return nil }

func sv(xs ...string) []Val {
	out := make([]Val, len(xs))
	for i, x := range xs {
		out[i] = Val{S: x}
	}
	return out
}

func nv(xs ...uint64) []Val {
	out := make([]Val, len(xs))
	for i, x := range xs {
		out[i] = Val{N: x}
	}
	return out
}

// Big64K is the largest documented string (65535 bytes).
var Big64K = strings.Repeat("0123456789abcdef", 4096)[:65535]

// ConcatMerge is the user merge function used for string columns. User code may be
// preempted anywhere: it yields to the scheduler (a no-op outside an exploration).
func ConcatMerge(v, d string) string {
	vsched.Yield()
	return v + d
}

var collidingEnum [2]string

// CollidingEnumStrings returns two distinct strings whose 32-bit truncated xxh3
// hashes are equal (deterministic birthday search, a few hundred thousand hashes).
func CollidingEnumStrings() (string, string) {
	if collidingEnum[0] != "" {
		return collidingEnum[0], collidingEnum[1]
	}
	seen := map[uint32]uint32{}
	var buf [4]byte
	for i := uint32(0); ; i++ {
		binary.LittleEndian.PutUint32(buf[:], i)
		s := fmt.Sprintf("e%x", buf[:])
		h := uint32(xxh3.HashString(s))
		if j, ok := seen[h]; ok {
			binary.LittleEndian.PutUint32(buf[:], j)
			collidingEnum = [2]string{fmt.Sprintf("e%x", buf[:]), s}
			return collidingEnum[0], collidingEnum[1]
		}
		seen[h] = i
	}
}

// Kinds is the table of all column kinds, by name.
var Kinds = map[string]*KindDesc{}

// KindNames lists the kinds in a fixed order (simplest first).
var KindNames = []string{"int", "int16", "int32", "int64", "uint", "uint16", "uint32", "uint64", "float32", "float64", "bool", "string", "enum", "record", "key"}

func init() {
	i64 := func(x int64) uint64 { return uint64(x) }
	add := func(k *KindDesc, vals, deltas []Val) {
		k.Values, k.Deltas = vals, deltas
		Kinds[k.Name] = k
	}
	add(kindInt(), nv(7, 0, i64(math.MinInt64), i64(-1), math.MaxInt64), nv(5, i64(-3)))
	add(kindInt16(), nv(7, 0, i64(math.MinInt16), i64(-1), math.MaxInt16), nv(5, i64(math.MaxInt16)))
	add(kindInt32(), nv(7, 0, i64(math.MinInt32), i64(-1), math.MaxInt32), nv(5, i64(math.MaxInt32)))
	add(kindInt64(), nv(7, 0, i64(math.MinInt64), i64(-1), math.MaxInt64), nv(5, i64(-3)))
	add(kindUint(), nv(7, 0, math.MaxUint64, 1<<63), nv(5, math.MaxUint64))
	add(kindUint16(), nv(7, 0, math.MaxUint16, 1<<15), nv(5, math.MaxUint16))
	add(kindUint32(), nv(7, 0, math.MaxUint32, 1<<31), nv(5, math.MaxUint32))
	add(kindUint64(), nv(7, 0, math.MaxUint64, 1<<63), nv(5, math.MaxUint64))
	f32 := func(f float32) uint64 { return uint64(math.Float32bits(f)) }
	add(kindFloat32(), nv(f32(1.5), 0x7fc00001 /*NaN*/, f32(float32(math.Copysign(0, -1))), f32(float32(math.Inf(1))), 1 /*smallest subnormal*/, 0),
		nv(f32(0.25), f32(float32(math.Inf(-1)))))
	add(kindFloat64(), nv(math.Float64bits(1.5), 0x7ff8000000000001, math.Float64bits(math.Copysign(0, -1)), math.Float64bits(math.Inf(1)), 1, 0),
		nv(math.Float64bits(0.25), math.Float64bits(math.Inf(-1))))

	add(&KindDesc{
		Name: "bool", IsBool: true,
		Make: func() column.Column { return column.ForBool() },
		Set:  func(r column.Row, col string, v Val) { r.SetBool(col, v.N != 0) },
		Read: func(r column.Row, col string) (Val, bool) { b := r.Bool(col); return Val{N: 1}, b },
		ReadTxn: func(t *column.Txn, col string) (Val, bool) {
			b := t.Bool(col).Get()
			return Val{N: 1}, b
		},
		FromAny: func(a any) (Val, bool) { b, ok := a.(bool); return Val{N: 1}, ok && b },
		ToAny:   func(v Val) any { return v.N != 0 },
	}, nv(1, 0), nil)

	add(&KindDesc{
		Name: "string", Textual: true, Mergeable: true,
		Make:    func() column.Column { return column.ForString(column.WithMerge(ConcatMerge)) },
		Set:     func(r column.Row, col string, v Val) { r.SetString(col, v.S) },
		Merge:   func(r column.Row, col string, v Val) { r.MergeString(col, v.S) },
		Read:    func(r column.Row, col string) (Val, bool) { s, ok := r.String(col); return Val{S: s}, ok },
		ReadTxn: func(t *column.Txn, col string) (Val, bool) { s, ok := t.String(col).Get(); return Val{S: s}, ok },
		FromAny: func(a any) (Val, bool) { s, ok := a.(string); return Val{S: s}, ok },
		ToAny:   func(v Val) any { return v.S },
		MergeFn: func(old, d Val) Val { return Val{S: old.S + d.S} },
		Less:    func(a, b Val) bool { return a.S < b.S },
	}, sv("a", Big64K[:65000], "", "b"), sv("x", ""))

	e1, e2 := CollidingEnumStrings()
	add(&KindDesc{
		Name: "enum", Textual: true,
		Make:    func() column.Column { return column.ForEnum() },
		Set:     func(r column.Row, col string, v Val) { r.SetEnum(col, v.S) },
		Read:    func(r column.Row, col string) (Val, bool) { s, ok := r.Enum(col); return Val{S: s}, ok },
		ReadTxn: func(t *column.Txn, col string) (Val, bool) { s, ok := t.Enum(col).Get(); return Val{S: s}, ok },
		FromAny: func(a any) (Val, bool) { s, ok := a.(string); return Val{S: s}, ok },
		ToAny:   func(v Val) any { return v.S },
		Less:    func(a, b Val) bool { return a.S < b.S },
	}, sv("x", e1, e2, "", "y", Big64K), nil)

	add(&KindDesc{
		Name: "record", Mergeable: true,
		Make: func() column.Column {
			return column.ForRecord(func() *Rec { return new(Rec) }, column.WithMerge(func(v, d *Rec) *Rec {
				vb := append([]byte{}, v.B...)
				vsched.Yield() // user merge code may be preempted between reading its two arguments
				return &Rec{B: append(vb, d.B...)}
			}))
		},
		Set:   func(r column.Row, col string, v Val) { r.SetRecord(col, &Rec{B: []byte(v.S)}) },
		Merge: func(r column.Row, col string, v Val) { r.MergeRecord(col, &Rec{B: []byte(v.S)}) },
		Read: func(r column.Row, col string) (Val, bool) {
			a, ok := r.Record(col)
			if !ok {
				return Val{}, false
			}
			return Val{S: string(a.(*Rec).B)}, true
		},
		ReadTxn: func(t *column.Txn, col string) (Val, bool) {
			a, ok := t.Record(col).Get()
			if !ok {
				return Val{}, false
			}
			return Val{S: string(a.(*Rec).B)}, true
		},
		FromAny: func(a any) (Val, bool) {
			rec, ok := a.(*Rec)
			if !ok {
				return Val{}, false
			}
			return Val{S: string(rec.B)}, true
		},
		ToAny:   func(v Val) any { return &Rec{B: []byte(v.S)} },
		MergeFn: func(old, d Val) Val { return Val{S: old.S + d.S} },
	}, sv("r", Big64K[:65000], "", "\x00\xff"), sv("z", ""))

	add(&KindDesc{
		Name: "key", Textual: true, IsKey: true,
		Make:    func() column.Column { return column.ForKey() },
		Set:     func(r column.Row, col string, v Val) { r.SetKey(v.S) },
		Read:    func(r column.Row, col string) (Val, bool) { s, ok := r.Key(); return Val{S: s}, ok },
		ReadTxn: func(t *column.Txn, col string) (Val, bool) { s, ok := t.Key().Get(); return Val{S: s}, ok },
		FromAny: func(a any) (Val, bool) { s, ok := a.(string); return Val{S: s}, ok },
		ToAny:   func(v Val) any { return v.S },
		Less:    func(a, b Val) bool { return a.S < b.S },
	}, sv("a", "b"), nil)
}
