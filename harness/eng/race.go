package eng

import (
	"fmt"
	"os"
	"regexp"
	"strings"
)

// RaceReport is one report of the Go race detector, reduced to the pair of
// innermost kelindar/column functions of the two conflicting accesses (function
// names, not line numbers: lines move with every fix).
type RaceReport struct {
	Pair string
	Alt  []string // pairs formed with the callers of the innermost functions
	Text string
}

var raceOff int64

var frameRe = regexp.MustCompile(`(?m)^  (\S+)\(\)\n      (\S+):(\d+)`)

// DrainRaceReports returns the reports the detector wrote since the last call.
func DrainRaceReports() (out []RaceReport) {
	base := os.Getenv("VERIF_RACE_LOG")
	if base == "" {
		return nil
	}
	path := fmt.Sprintf("%s.%d", base, os.Getpid())
	f, err := os.Open(path)
	if err != nil {
		return nil
	}
	defer f.Close()
	st, err := f.Stat()
	if err != nil || st.Size() <= raceOff {
		return nil
	}
	buf := make([]byte, st.Size()-raceOff)
	n, _ := f.ReadAt(buf, raceOff)
	raceOff += int64(n)
	for _, block := range strings.Split(string(buf[:n]), "==================") {
		if !strings.Contains(block, "WARNING: DATA RACE") {
			continue
		}
		// the two access stacks come first, separated by blank lines
		secs := strings.Split(block, "\n\n")
		var fns [][]string // per access: the two innermost kelindar/column functions
		for _, sec := range secs {
			head := strings.TrimSpace(sec)
			if !(strings.Contains(head, " at 0x") && (strings.HasPrefix(head, "WARNING") || strings.HasPrefix(head, "Previous") || strings.HasPrefix(head, "Read") || strings.HasPrefix(head, "Write"))) {
				continue
			}
			var fn []string
			for _, m := range frameRe.FindAllStringSubmatch(sec, -1) {
				if strings.HasPrefix(m[1], "github.com/kelindar/column") {
					fn = append(fn, strings.TrimPrefix(m[1], "github.com/kelindar/"))
					if len(fn) == 2 {
						break
					}
				}
			}
			if len(fn) == 0 {
				fn = []string{"?"}
				if m := frameRe.FindStringSubmatch(sec); m != nil {
					fn[0] = m[1]
				}
			}
			fns = append(fns, fn)
			if len(fns) == 2 {
				break
			}
		}
		for len(fns) < 2 {
			fns = append(fns, []string{"?"})
		}
		pair := func(a, b string) string {
			if b < a {
				a, b = b, a
			}
			return a + " <-> " + b
		}
		primary := pair(fns[0][0], fns[1][0])
		var alt []string
		for i, a := range fns[0] {
			for j, b := range fns[1] {
				if p := pair(a, b); (i > 0 || j > 0) && p != primary {
					alt = append(alt, p)
				}
			}
		}
		text := strings.TrimSpace(block)
		if len(text) > 1800 {
			text = text[:1800] + " ..."
		}
		out = append(out, RaceReport{Pair: primary, Alt: alt, Text: text})
	}
	return out
}
