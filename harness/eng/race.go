package eng

import (
	"fmt"
	"os"
	"regexp"
	"sort"
	"strings"
)

// RaceReport is one report of the Go race detector, reduced to the pair of
// innermost kelindar/column functions of the two conflicting accesses (function
// names, not line numbers: lines move with every fix).
type RaceReport struct {
	Pair string
	Text string
}

var raceOff int64

var frameRe = regexp.MustCompile(`(?m)^  (\S+)\(\)\n      (\S+):(\d+)`)

// DrainRaceReports returns the reports the detector wrote since the last call.
func DrainRaceReports() (out []RaceReport) {
	base := os.Getenv("VERIF_RACE_LOG")
	if base == "" {
		return nil
	}
	path := fmt.Sprintf("%s.%d", base, os.Getpid())
	f, err := os.Open(path)
	if err != nil {
		return nil
	}
	defer f.Close()
	st, err := f.Stat()
	if err != nil || st.Size() <= raceOff {
		return nil
	}
	buf := make([]byte, st.Size()-raceOff)
	n, _ := f.ReadAt(buf, raceOff)
	raceOff += int64(n)
	for _, block := range strings.Split(string(buf[:n]), "==================") {
		if !strings.Contains(block, "WARNING: DATA RACE") {
			continue
		}
		// the two access stacks come first, separated by blank lines
		secs := strings.Split(block, "\n\n")
		var fns []string
		for _, sec := range secs {
			head := strings.TrimSpace(sec)
			if !(strings.Contains(head, " at 0x") && (strings.HasPrefix(head, "WARNING") || strings.HasPrefix(head, "Previous") || strings.HasPrefix(head, "Read") || strings.HasPrefix(head, "Write"))) {
				continue
			}
			fn := "?"
			for _, m := range frameRe.FindAllStringSubmatch(sec, -1) {
				if strings.HasPrefix(m[1], "github.com/kelindar/column") {
					fn = strings.TrimPrefix(m[1], "github.com/kelindar/")
					break
				}
			}
			if fn == "?" {
				if m := frameRe.FindStringSubmatch(sec); m != nil {
					fn = m[1]
				}
			}
			fns = append(fns, fn)
			if len(fns) == 2 {
				break
			}
		}
		for len(fns) < 2 {
			fns = append(fns, "?")
		}
		sort.Strings(fns)
		text := strings.TrimSpace(block)
		if len(text) > 1800 {
			text = text[:1800] + " ..."
		}
		out = append(out, RaceReport{Pair: fns[0] + " <-> " + fns[1], Text: text})
	}
	return out
}
