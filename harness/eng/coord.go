package eng

import (
	"bufio"
	"crypto/sha1"
	"encoding/json"
	"fmt"
	"io"
	"os"
	"os/exec"
	"path/filepath"
	"runtime"
	"sort"
	"strconv"
	"strings"
	"sync"
	"time"
)

// Item is a unit of work sent to a worker process.
type Item struct {
	ID       int             `json:"id"`
	Prop     string          `json:"prop"`
	Tier     string          `json:"tier"`
	Unit     string          `json:"unit"`
	Prefix   json.RawMessage `json:"prefix,omitempty"`
	Split    bool            `json:"split"`
	Race     bool            `json:"race,omitempty"` // run on a -race worker
	Deadline int64           `json:"deadline"`       // unix nanos
}

// Reply is what the worker sends back.
type Reply struct {
	ID       int               `json:"id"`
	Children []json.RawMessage `json:"children,omitempty"`
	Acc      *Acc              `json:"acc"`
	WallMS   int64             `json:"wall_ms"`
}

func VerifDir() string {
	if d := os.Getenv("VERIF_DIR"); d != "" {
		return d
	}
	return "/verif"
}

// Worker is the loop of a worker process: read items from stdin, explore, reply.
func Worker(prop, tier string) {
	ck := Checks[prop]
	if ck == nil {
		fmt.Fprintln(os.Stderr, "unknown property", prop)
		os.Exit(2)
	}
	units := map[string]Unit{}
	for _, u := range ck.Units(tier) {
		units[u.Name()] = u
	}
	known := LoadKnown(filepath.Join(VerifDir(), "known-findings.json"))
	in := bufio.NewReaderSize(os.Stdin, 1<<20)
	out := bufio.NewWriter(os.Stdout)
	for {
		line, err := in.ReadBytes('\n')
		if len(line) > 1 {
			var it Item
			if e := json.Unmarshal(line, &it); e != nil {
				fmt.Fprintln(os.Stderr, "worker: bad item:", e)
				os.Exit(2)
			}
			t0 := time.Now()
			acc := NewAcc()
			c := &Ctx{Tier: it.Tier, Deadline: time.Unix(0, it.Deadline), Known: known, Acc: acc, MaxViol: 8}
			var children []json.RawMessage
			if u := units[it.Unit]; u != nil {
				children = u.Explore(c, it.Prefix, it.Split)
			} else {
				acc.Errors = append(acc.Errors, "unknown unit "+it.Unit)
			}
			acc.Pack()
			b, _ := json.Marshal(Reply{ID: it.ID, Children: children, Acc: acc, WallMS: time.Since(t0).Milliseconds()})
			out.Write(b)
			out.WriteByte('\n')
			out.Flush()
		}
		if err != nil {
			return
		}
	}
}

type proc struct {
	cmd *exec.Cmd
	in  io.WriteCloser
	out *bufio.Reader
}

func spawn(bin, prop, tier string, env []string) (*proc, error) {
	cmd := exec.Command(bin, "worker", prop, tier)
	cmd.Env = append(os.Environ(), env...)
	cmd.Stderr = os.Stderr
	in, err := cmd.StdinPipe()
	if err != nil {
		return nil, err
	}
	out, err := cmd.StdoutPipe()
	if err != nil {
		return nil, err
	}
	if err := cmd.Start(); err != nil {
		return nil, err
	}
	return &proc{cmd: cmd, in: in, out: bufio.NewReaderSize(out, 1<<20)}, nil
}

// RunCheck coordinates one property check and returns the process exit code.
func RunCheck(prop, tier string) int {
	t0 := time.Now()
	ck := Checks[prop]
	if ck == nil {
		fmt.Fprintln(os.Stderr, "unknown property", prop)
		return 2
	}
	dir := VerifDir()
	known := LoadKnown(filepath.Join(dir, "known-findings.json"))
	units := ck.Units(tier)
	if only := os.Getenv("VERIF_ONLY"); only != "" {
		// debugging aid: restrict to units whose name contains the substring
		var sel []Unit
		for _, u := range units {
			if strings.Contains(u.Name(), only) {
				sel = append(sel, u)
			}
		}
		units = sel
	}
	budget := ck.Budget(tier)
	if s := os.Getenv("VERIF_BUDGET_S"); s != "" {
		if n, err := strconv.Atoi(s); err == nil {
			budget = time.Duration(n) * time.Second
		}
	}
	deadline := t0.Add(budget)
	seed, _ := strconv.Atoi(os.Getenv("VERIF_SEED"))

	nw := runtime.NumCPU()
	if s := os.Getenv("VERIF_WORKERS"); s != "" {
		if n, err := strconv.Atoi(s); err == nil && n > 0 {
			nw = n
		}
	}

	var mu sync.Mutex
	cond := sync.NewCond(&mu)
	var queue []Item
	nextID := 0
	pending := 0 // queued + in flight
	total := NewAcc()
	perUnit := map[string]*Acc{}
	unitWall := map[string]int64{}
	unitItems := map[string]int{}
	raceUnit := map[string]bool{}
	for _, u := range units {
		perUnit[u.Name()] = NewAcc()
		if ru, ok := u.(RaceUnit); ok && ru.UseRace() {
			raceUnit[u.Name()] = true
		}
		queue = append(queue, Item{ID: nextID, Prop: prop, Tier: tier, Unit: u.Name(), Split: u.SplitRoot(), Race: raceUnit[u.Name()], Deadline: deadline.UnixNano()})
		nextID++
		pending++
	}
	if nw > len(queue)*4 && !anySplit(units) {
		nw = len(queue)
	}
	if nw < 1 {
		nw = 1
	}

	bin, _ := os.Executable()
	if len(raceUnit) > 0 {
		if _, err := os.Stat(bin + "-race"); err != nil {
			fmt.Fprintln(os.Stderr, "HARNESS-ERROR: race build missing:", bin+"-race")
			return 2
		}
	}
	env := []string{"GOMEMLIMIT=4GiB", "VERIF_DIR=" + dir}
	// one P per worker: the scheduler is cooperative anyway, and s2 writers then
	// compress synchronously instead of leaving helper goroutines behind
	env = append(env, "GOMAXPROCS=1")
	var wg sync.WaitGroup
	for w := 0; w < nw; w++ {
		wg.Add(1)
		go func(w int) {
			defer wg.Done()
			procs := map[bool]*proc{} // plain and -race worker of this slot
			defer func() {
				for _, p := range procs {
					if p != nil {
						p.in.Close()
						p.cmd.Wait()
					}
				}
			}()
			for {
				mu.Lock()
				for len(queue) == 0 && pending > 0 {
					cond.Wait()
				}
				if pending == 0 {
					mu.Unlock()
					return
				}
				it := queue[0]
				queue = queue[1:]
				mu.Unlock()

				var rep *Reply
				var errStr string
				p := procs[it.Race]
				if p == nil {
					var err error
					tmp := workerTmp(dir, w)
					wenv := append(append([]string{}, env...), "TMPDIR="+tmp)
					wbin := bin
					if it.Race {
						wbin += "-race"
						wenv = append(wenv, "GORACE=halt_on_error=0 history_size=3 log_path="+filepath.Join(tmp, "race"), "VERIF_RACE_LOG="+filepath.Join(tmp, "race"))
					}
					if p, err = spawn(wbin, prop, tier, wenv); err != nil {
						errStr = "spawn: " + err.Error()
					}
					procs[it.Race] = p
				}
				if p != nil {
					b, _ := json.Marshal(it)
					p.in.Write(append(b, '\n'))
					type rr struct {
						line []byte
						err  error
					}
					ch := make(chan rr, 1)
					go func() {
						l, e := p.out.ReadBytes('\n')
						ch <- rr{l, e}
					}()
					grace := time.Until(deadline) + 150*time.Second
					select {
					case r := <-ch:
						if r.err != nil {
							errStr = fmt.Sprintf("worker died on unit %s prefix %s: %v", it.Unit, string(it.Prefix), r.err)
							p.cmd.Process.Kill()
							p.cmd.Wait()
							procs[it.Race] = nil
						} else {
							rep = &Reply{}
							if e := json.Unmarshal(r.line, rep); e != nil {
								errStr = "bad reply: " + e.Error()
								rep = nil
							}
						}
					case <-time.After(grace):
						errStr = fmt.Sprintf("worker hung on unit %s prefix %s (killed after deadline+150s)", it.Unit, string(it.Prefix))
						p.cmd.Process.Kill()
						p.cmd.Wait()
						procs[it.Race] = nil
					}
				}

				mu.Lock()
				if rep != nil {
					total.Merge(rep.Acc)
					perUnit[it.Unit].Merge(rep.Acc)
					unitWall[it.Unit] += rep.WallMS
					unitItems[it.Unit]++
					for _, ch := range rep.Children {
						queue = append(queue, Item{ID: nextID, Prop: prop, Tier: tier, Unit: it.Unit, Prefix: ch, Split: false, Race: it.Race, Deadline: deadline.UnixNano()})
						nextID++
						pending++
					}
				} else {
					total.Errors = append(total.Errors, errStr)
				}
				pending--
				cond.Broadcast()
				mu.Unlock()
			}
		}(w)
	}
	wg.Wait()
	os.RemoveAll(filepath.Join(dir, ".build", "tmp"))
	if m, _ := filepath.Glob(filepath.Join("/dev/shm", "colverif-tmp", fmt.Sprintf("w%d-*", os.Getpid()))); len(m) > 0 {
		for _, d := range m {
			os.RemoveAll(d)
		}
	}

	// ---- report
	var unitStats []map[string]any
	names := make([]string, 0, len(perUnit))
	for n := range perUnit {
		names = append(names, n)
	}
	sort.Strings(names)
	for _, n := range names {
		a := perUnit[n]
		unitStats = append(unitStats, map[string]any{
			"unit": n, "evaluations": a.Evaluations, "transitions": a.Transitions, "states": len(a.States),
			"distinct_outcomes": len(a.Outcomes), "max_depth": a.MaxDepth, "complete": len(a.Incomplete) == 0,
			"cpu_ms": unitWall[n], "items": unitItems[n],
		})
	}
	nviol := 0
	seen := map[string]bool{}
	outDir := dir
	if o := os.Getenv("VERIF_OUT"); o != "" {
		// self-tests against modified trees write their evidence and replays elsewhere
		outDir = o
	}
	os.MkdirAll(filepath.Join(outDir, "replays"), 0o755)
	if old, _ := filepath.Glob(filepath.Join(outDir, "replays", prop+"-*.json")); len(old) > 0 {
		for _, f := range old {
			os.Remove(f)
		}
	}
	for _, v := range total.Violations {
		if known.Match(v) != "" {
			continue
		}
		k := v.Key() + "|" + v.Unit
		if seen[k] {
			continue
		}
		seen[k] = true
		nviol++
		h := sha1.Sum([]byte(k))
		path := filepath.Join(outDir, "replays", fmt.Sprintf("%s-%x.json", prop, h[:5]))
		b, _ := json.MarshalIndent(v, "", " ")
		os.WriteFile(path, append(b, '\n'), 0o644)
		fmt.Printf("VIOLATION property=%s replay=%s\n", prop, path)
		fmt.Printf("  unit=%s assert=%s witness=%q\n  %s\n", v.Unit, v.Assert, v.Witness, v.Detail)
	}
	ids := make([]string, 0, len(total.KnownHits))
	for id := range total.KnownHits {
		ids = append(ids, id)
	}
	sort.Strings(ids)
	for _, id := range ids {
		what := id
		if f := known.ByID(id); f != nil {
			what = f.ID + ": " + f.What
		}
		fmt.Printf("KNOWN-FINDING: property=%s %s (met %d times)\n", prop, what, total.KnownHits[id])
	}
	for _, e := range total.Errors {
		fmt.Fprintln(os.Stderr, "HARNESS-ERROR:", e)
	}
	wall := time.Since(t0).Seconds()
	evPath := filepath.Join(outDir, "evidence", prop+".json")
	os.MkdirAll(filepath.Dir(evPath), 0o755)
	if err := WriteEvidence(evPath, ck, tier, seed, total, unitStats, wall, nviol); err != nil {
		fmt.Fprintln(os.Stderr, "evidence:", err)
		return 2
	}
	fmt.Printf("%s %s: units=%d evaluations=%d transitions=%d states=%d nontrivial=%d outcomes=%d known_hits=%d violations=%d incomplete=%d wall=%.1fs\n",
		prop, tier, len(units), total.Evaluations, total.Transitions, len(total.States), len(total.Nontrivial), len(total.Outcomes), len(total.KnownHits), nviol, len(total.Incomplete), wall)
	if nviol > 0 {
		return 1
	}
	if len(total.Errors) > 0 {
		return 2
	}
	return 0
}

func anySplit(us []Unit) bool {
	for _, u := range us {
		if u.SplitRoot() {
			return true
		}
	}
	return false
}

// workerTmp returns a private scratch directory for one worker, on tmpfs when there
// is one (every Snapshot creates and removes a temp file).
func workerTmp(dir string, w int) string {
	base := filepath.Join(dir, ".build", "tmp")
	if st, err := os.Stat("/dev/shm"); err == nil && st.IsDir() {
		base = filepath.Join("/dev/shm", "colverif-tmp")
	}
	p := filepath.Join(base, fmt.Sprintf("w%d-%d", os.Getpid(), w))
	os.MkdirAll(p, 0o755)
	return p
}

// RunReplay re-executes the behaviour stored in a replay file.
func RunReplay(path string) int {
	b, err := os.ReadFile(path)
	if err != nil {
		fmt.Fprintln(os.Stderr, err)
		return 2
	}
	var v Violation
	if err := json.Unmarshal(b, &v); err != nil {
		fmt.Fprintln(os.Stderr, err)
		return 2
	}
	ck := Checks[v.Prop]
	if ck == nil {
		return 2
	}
	known := LoadKnown(filepath.Join(VerifDir(), "known-findings.json"))
	for _, tier := range []string{"quick", "thorough"} {
		for _, u := range ck.Units(tier) {
			if u.Name() != v.Unit {
				continue
			}
			c := &Ctx{Tier: tier, Deadline: time.Now().Add(time.Hour), Known: known, Acc: NewAcc(), MaxViol: 100}
			vs := u.Replay(c, v.Replay)
			fmt.Printf("replay of %s on unit %s: %d violation(s)\n", path, v.Unit, len(vs))
			hit := false
			for _, o := range vs {
				fmt.Printf("  assert=%s witness=%q\n  %s\n", o.Assert, o.Witness, o.Detail)
				if o.Assert == v.Assert && o.Witness == v.Witness {
					hit = true
				}
			}
			if hit {
				fmt.Printf("VIOLATION property=%s replay=%s\n", v.Prop, path)
				return 1
			}
			return 0
		}
	}
	fmt.Fprintln(os.Stderr, "unit not found:", v.Unit)
	return 2
}
