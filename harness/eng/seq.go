package eng

import (
	"encoding/json"
	"fmt"
)

// SeqState is a live implementation instance paired with its reference model.
type SeqState interface {
	// Ops lists the labels of the operations available in the current (model) state,
	// simplest first. It must depend on the model state only.
	Ops() []string
	// Apply applies operation i to implementation and model; with check set it then
	// observes the implementation through its public API and compares with the model.
	Apply(i int, check bool) []Violation
	// Key is a canonical rendering of the model state (statistics only; never used
	// to prune) and whether the state is non-trivial.
	Key() (string, bool)
	Close()
}

// SeqSpec describes one bounded-exhaustive operation-sequence exploration.
type SeqSpec struct {
	UnitName string
	Prop     string
	Depth    int
	Split    int // number of leading levels handed out to workers (0 = whole unit in one item)
	New      func() SeqState
}

type seqReplay struct {
	Unit string   `json:"unit"`
	Path []int    `json:"path"`
	Ops  []string `json:"ops"`
}

func (s *SeqSpec) Name() string    { return s.UnitName }
func (s *SeqSpec) SplitRoot() bool { return s.Split > 0 }

func (s *SeqSpec) build(path []int, labels *[]string) SeqState {
	st := s.New()
	for _, i := range path {
		if labels != nil {
			ops := st.Ops()
			if i < len(ops) {
				*labels = append(*labels, ops[i])
			}
		}
		st.Apply(i, false)
	}
	return st
}

// step applies op i with checking on a state that sits at node path, and reports.
// It returns false when the subtree must be pruned.
func (s *SeqSpec) step(c *Ctx, st SeqState, path []int, i int) bool {
	a := c.Acc
	viols := st.Apply(i, true)
	a.TakeSub()
	a.Transitions++
	a.Evaluations++
	a.Nodes++
	key, nt := st.Key()
	a.State(key, nt)
	if d := len(path) + 1; d > a.MaxDepth {
		a.MaxDepth = d
	}
	if len(viols) == 0 {
		return true
	}
	full := append(append([]int{}, path...), i)
	keep := true
	for _, v := range viols {
		v.Prop, v.Unit = s.Prop, s.UnitName
		if id := c.Known.Match(v); id != "" {
			a.KnownHits[id]++
			if !v.ReadOnly {
				a.AddNote("pruned_by:"+id, 1)
				keep = false
			}
			continue
		}
		keep = false
		var labels []string
		st2 := s.build(full, &labels)
		st2.Close()
		rp, _ := json.Marshal(seqReplay{Unit: s.UnitName, Path: full, Ops: labels})
		v.Replay = rp
		// never reproducible = nondeterminism of the harness or the run: a harness error.
		// Reproducible some of the time = the code under test behaves differently on equal
		// histories (views into recycled buffers, map order): reported, marked unstable.
		n := s.stable(full, v)
		v.Stable = n == 4
		if n == 0 {
			a.Errors = append(a.Errors, fmt.Sprintf("%s: violation %s not reproducible on re-execution (nondeterminism): %s", s.UnitName, v.Assert, v.Detail))
			continue
		}
		if !v.Stable {
			v.Detail += fmt.Sprintf(" [shown again by %d of 4 re-executions of the same history]", n)
		}
		c.Report(v)
	}
	return keep
}

// stable re-executes the path 4 times on fresh instances and counts how often the
// violation shows again (same assertion, same witness).
func (s *SeqSpec) stable(full []int, v Violation) int {
	n := 0
	for k := 0; k < 4; k++ {
		st := s.build(full[:len(full)-1], nil)
		vs := st.Apply(full[len(full)-1], true)
		st.Close()
		for _, o := range vs {
			if o.Assert == v.Assert && o.Witness == v.Witness {
				n++
				break
			}
		}
	}
	return n
}

func (s *SeqSpec) dfs(c *Ctx, st SeqState, path []int) {
	defer func() {
		if st != nil {
			st.Close()
		}
	}()
	if len(path) >= s.Depth {
		return
	}
	ops := st.Ops()
	if len(path) == s.Depth-1 || len(path) == 0 {
		c.Acc.Sample(map[string]any{"unit": s.UnitName, "at_path": append([]int{}, path...), "alphabet": ops}, 4)
	}
	for i := range ops {
		if c.Expired() || c.TooMany() {
			c.Acc.Incomplete = append(c.Acc.Incomplete, fmt.Sprintf("%s: stopped at path %v (deadline or violation cap)", s.UnitName, path))
			return
		}
		var s2 SeqState
		if i == len(ops)-1 {
			s2, st = st, nil
		} else {
			s2 = s.build(path, nil)
			c.Acc.AddNote("replayed_ops", float64(len(path)))
		}
		if !s.step(c, s2, path, i) {
			s2.Close()
			continue
		}
		s.dfs(c, s2, append(append([]int{}, path...), i))
	}
}

func (s *SeqSpec) Explore(c *Ctx, prefix json.RawMessage, split bool) (children []json.RawMessage) {
	var path []int
	if len(prefix) > 0 {
		if err := json.Unmarshal(prefix, &path); err != nil {
			c.Acc.Errors = append(c.Acc.Errors, "bad prefix: "+err.Error())
			return nil
		}
	}
	var st SeqState
	if len(path) == 0 {
		st = s.New()
	} else {
		st = s.build(path[:len(path)-1], nil)
		if !s.step(c, st, path[:len(path)-1], path[len(path)-1]) {
			st.Close()
			return nil
		}
	}
	if split && len(path) < s.Split && len(path) < s.Depth {
		n := len(st.Ops())
		st.Close()
		for i := 0; i < n; i++ {
			b, _ := json.Marshal(append(append([]int{}, path...), i))
			children = append(children, b)
		}
		return children
	}
	s.dfs(c, st, path)
	return nil
}

func (s *SeqSpec) Replay(c *Ctx, replay json.RawMessage) []Violation {
	var r seqReplay
	if err := json.Unmarshal(replay, &r); err != nil || len(r.Path) == 0 {
		return nil
	}
	st := s.build(r.Path[:len(r.Path)-1], nil)
	vs := st.Apply(r.Path[len(r.Path)-1], true)
	st.Close()
	for i := range vs {
		vs[i].Prop, vs[i].Unit = s.Prop, s.UnitName
	}
	return vs
}

// ---------------------------------------------------------------- flat enumerations (FAULT, data)

// FlatSpec enumerates cases 0..N-1 (every crash point, every failing write index,
// every value of a finite domain).
type FlatSpec struct {
	UnitName string
	Prop     string
	Chunk    int // cases per work item
	N        func() int
	Case     func(i int) (key string, nontrivial bool, sample any, viols []Violation)
	// End, if set, is called after the last case of every work item (and after a
	// replayed case); it lets a unit batch expensive checks across cases.
	End func() []Violation
	// Outcomes makes the engine tally the case keys by name (use when there are few).
	Outcomes bool
	// Count, if set, is incremented by Case with the number of behaviours it checked
	// (a case may enumerate many); the engine then reports that as evaluations.
	Count *int64
}

type flatReplay struct {
	Unit string `json:"unit"`
	Case int    `json:"case"`
	Hi   int    `json:"hi,omitempty"` // set when the violation came from a batched check over [case,hi)
}

func (s *FlatSpec) Name() string    { return s.UnitName }
func (s *FlatSpec) SplitRoot() bool { return s.Chunk > 0 }

func (s *FlatSpec) Explore(c *Ctx, prefix json.RawMessage, split bool) (children []json.RawMessage) {
	n := s.N()
	lo, hi := 0, n
	if len(prefix) > 0 {
		var r [2]int
		json.Unmarshal(prefix, &r)
		lo, hi = r[0], r[1]
	} else if split && s.Chunk > 0 {
		for lo := 0; lo < n; lo += s.Chunk {
			h := lo + s.Chunk
			if h > n {
				h = n
			}
			b, _ := json.Marshal([2]int{lo, h})
			children = append(children, b)
		}
		return children
	}
	for i := lo; i < hi; i++ {
		if c.Expired() || c.TooMany() {
			c.Acc.Incomplete = append(c.Acc.Incomplete, fmt.Sprintf("%s: stopped at case %d of [%d,%d)", s.UnitName, i, lo, hi))
			return nil
		}
		var before int64
		if s.Count != nil {
			before = *s.Count
		}
		key, nt, sample, viols := s.Case(i)
		if s.Count != nil {
			c.Acc.Evaluations += *s.Count - before
			c.Acc.Transitions += *s.Count - before
		} else {
			c.Acc.Evaluations++
			c.Acc.Transitions++
		}
		c.Acc.Nodes++
		c.Acc.State(s.UnitName+"/"+key, nt)
		if s.Outcomes {
			c.Acc.Outcomes[s.UnitName+": "+key]++
		}
		if sample != nil && (i == lo || i == hi-1) {
			c.Acc.Sample(sample, 6)
		}
		for _, v := range viols {
			v.Prop, v.Unit = s.Prop, s.UnitName
			if id := c.Known.Match(v); id != "" {
				c.Acc.KnownHits[id]++
				continue
			}
			rp, _ := json.Marshal(flatReplay{Unit: s.UnitName, Case: i})
			v.Replay = rp
			v.Stable = true
			if !v.Once {
				n := 0
				for k := 0; k < 4; k++ {
					_, _, _, again := s.Case(i)
					for _, o := range again {
						if o.Assert == v.Assert && o.Witness == v.Witness {
							n++
							break
						}
					}
				}
				v.Stable = n == 4
				if n == 0 {
					c.Acc.Errors = append(c.Acc.Errors, fmt.Sprintf("%s: case %d: violation %s not reproducible: %s", s.UnitName, i, v.Assert, v.Detail))
					continue
				}
				if !v.Stable {
					v.Detail += fmt.Sprintf(" [shown again by %d of 4 re-executions of the same case]", n)
				}
			}
			c.Report(v)
		}
	}
	if s.End != nil {
		for _, v := range s.End() {
			v.Prop, v.Unit = s.Prop, s.UnitName
			if id := c.Known.Match(v); id != "" {
				c.Acc.KnownHits[id]++
				continue
			}
			rp, _ := json.Marshal(flatReplay{Unit: s.UnitName, Case: lo, Hi: hi})
			v.Replay = rp
			v.Stable = true
			c.Report(v)
		}
	}
	return nil
}

func (s *FlatSpec) Replay(c *Ctx, replay json.RawMessage) []Violation {
	var r flatReplay
	if err := json.Unmarshal(replay, &r); err != nil {
		return nil
	}
	hi := r.Case + 1
	if r.Hi > hi {
		hi = r.Hi
	}
	var vs []Violation
	for i := r.Case; i < hi; i++ {
		_, _, _, v := s.Case(i)
		vs = append(vs, v...)
	}
	if s.End != nil {
		vs = append(vs, s.End()...)
	}
	for i := range vs {
		vs[i].Prop, vs[i].Unit = s.Prop, s.UnitName
	}
	return vs
}
