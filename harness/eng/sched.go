package eng

import (
	"encoding/json"
	"fmt"
	"time"

	"colverif/vsched"
)

// SchedInstance is one freshly built scenario instance: thread bodies over real
// collections plus the oracle that judges the finished execution.
type SchedInstance struct {
	Threads []func()
	Daemon  *vsched.Daemon
	Ticks   int
	// Check runs after the execution (no exploration active) and returns a short
	// canonical outcome string plus violations. It must not touch the collections
	// when the execution did not end normally.
	Check func(res *vsched.Result) (outcome string, viols []Violation)
	Close func()
}

// SchedSpec is a scenario explored over all interleavings up to a preemption bound.
type SchedSpec struct {
	UnitName       string
	Prop           string
	Bound          int
	Split          bool
	PointOnRelease bool
	JudgeDeadlock  bool // deadlock/hang are violations of this property (C18)
	Race           bool // run in the -race build: race reports are violations
	New            func() *SchedInstance
}

type schedReplay struct {
	Unit    string          `json:"unit"`
	Choices []vsched.Choice `json:"choices"`
	Outcome string          `json:"outcome"`
}

func (s *SchedSpec) Name() string    { return s.UnitName }
func (s *SchedSpec) SplitRoot() bool { return s.Split }
func (s *SchedSpec) UseRace() bool   { return s.Race }

type schedExec struct {
	res     vsched.Result
	outcome string
	viols   []Violation
	races   []Violation
}

func (s *SchedSpec) run(prefix []vsched.Choice) schedExec {
	inst := s.New()
	res := vsched.Run(inst.Threads, vsched.Opts{Prefix: prefix, Daemon: inst.Daemon, Ticks: inst.Ticks,
		PointOnRelease: s.PointOnRelease, Timeout: 60 * time.Second})
	x := schedExec{res: res}
	if vsched.RaceBuild {
		for _, r := range DrainRaceReports() {
			x.races = append(x.races, Violation{Assert: "race-free", Witness: r.Pair, Alt: r.Alt, Detail: r.Text, Once: true})
		}
	}
	if res.Status == vsched.StOK {
		x.outcome, x.viols = inst.Check(&res)
		if inst.Close != nil {
			inst.Close()
		}
	} else if res.Status == vsched.StDeadlock || res.Status == vsched.StHang {
		x.outcome = res.Status.String() + " " + res.Blocked
		if s.JudgeDeadlock {
			x.viols = []Violation{{Assert: "terminates", Witness: s.UnitName + ": " + res.Status.String(), Detail: res.Blocked}}
		}
	}
	return x
}

func choicesOf(pts []vsched.Point) []vsched.Choice {
	out := make([]vsched.Choice, len(pts))
	for i, p := range pts {
		out[i] = vsched.Choice{C: p.C, N: p.N, Cur: p.Cur, Kind: p.Kind}
	}
	return out
}

func (s *SchedSpec) explore(c *Ctx, prefix []vsched.Choice, split bool) (children []json.RawMessage) {
	if c.Expired() || c.TooMany() {
		c.Acc.Incomplete = append(c.Acc.Incomplete, fmt.Sprintf("%s: subtree at prefix length %d not explored (deadline or violation cap)", s.UnitName, len(prefix)))
		return nil
	}
	a := c.Acc
	x := s.run(prefix)
	res := &x.res
	a.Evaluations++
	a.Transitions += int64(res.Steps)
	a.Nodes += int64(len(res.Points) - len(prefix))
	if len(res.Points) > a.MaxDepth {
		a.MaxDepth = len(res.Points)
	}
	switch res.Status {
	case vsched.StDiverged, vsched.StOverflow:
		a.Errors = append(a.Errors, fmt.Sprintf("%s: execution %s at prefix length %d: %s", s.UnitName, res.Status, len(prefix), res.Info))
		return nil
	case vsched.StHang:
		if !s.JudgeDeadlock {
			a.Errors = append(a.Errors, fmt.Sprintf("%s: execution hung (unmodelled blocking) %s", s.UnitName, res.Blocked))
			return nil
		}
	case vsched.StDeadlock:
		a.AddNote("deadlocked_executions", 1)
	}
	a.Outcomes[s.UnitName+": "+x.outcome]++
	a.State(s.UnitName+": "+x.outcome, res.Preempt > 0 || len(res.Points) > 1)
	if a.Evaluations <= 1 || len(x.viols) > 0 || (res.Preempt > 0 && res.Preempt == s.Bound && len(a.Samples) < 3) {
		a.Sample(map[string]any{"unit": s.UnitName, "schedule": renderSchedule(res.Points), "preemptions": res.Preempt, "outcome": x.outcome}, 6)
	}
	all := choicesOf(res.Points)
	for _, v := range append(x.viols, x.races...) {
		v.Prop, v.Unit = s.Prop, s.UnitName
		if id := c.Known.Match(v); id != "" {
			a.KnownHits[id]++
			continue
		}
		rp, _ := json.Marshal(schedReplay{Unit: s.UnitName, Choices: all, Outcome: x.outcome})
		v.Replay = rp
		v.Stable = true
		if !v.Once {
			n := 0
			for k := 0; k < 4; k++ {
				y := s.run(all)
				for _, o := range y.viols {
					if o.Assert == v.Assert && o.Witness == v.Witness {
						n++
						break
					}
				}
			}
			v.Stable = n == 4
			if n == 0 {
				a.Errors = append(a.Errors, fmt.Sprintf("%s: violation %s not reproducible on the same schedule (nondeterminism): %s", s.UnitName, v.Assert, v.Detail))
				continue
			}
			if !v.Stable {
				v.Detail += fmt.Sprintf(" [shown again by %d of 4 re-executions of the same schedule]", n)
			}
		}
		c.Report(v)
	}
	for i := len(prefix); i < len(res.Points); i++ {
		p := res.Points[i]
		cost := int(p.Pre)
		if p.CurEnabled {
			cost++
		}
		if cost > s.Bound {
			continue
		}
		for alt := 1; alt < int(p.N); alt++ {
			child := append(append([]vsched.Choice{}, all[:i]...), vsched.Choice{C: uint8(alt), N: p.N, Cur: p.Cur, Kind: p.Kind})
			if split {
				b, _ := json.Marshal(child)
				children = append(children, b)
			} else {
				s.explore(c, child, false)
			}
		}
	}
	return children
}

func renderSchedule(pts []vsched.Point) string {
	out := ""
	for _, p := range pts {
		if p.C != 0 {
			out += fmt.Sprintf("[t%d@%s->t%d]", p.Cur, p.Kind, p.T)
		} else {
			out += "."
		}
	}
	return out
}

func (s *SchedSpec) Explore(c *Ctx, prefix json.RawMessage, split bool) (children []json.RawMessage) {
	var pre []vsched.Choice
	if len(prefix) > 0 {
		if err := json.Unmarshal(prefix, &pre); err != nil {
			c.Acc.Errors = append(c.Acc.Errors, "bad prefix: "+err.Error())
			return nil
		}
	}
	return s.explore(c, pre, split)
}

func (s *SchedSpec) Replay(c *Ctx, replay json.RawMessage) []Violation {
	var r schedReplay
	if err := json.Unmarshal(replay, &r); err != nil {
		return nil
	}
	x := s.run(r.Choices)
	x.viols = append(x.viols, x.races...)
	for i := range x.viols {
		x.viols[i].Prop, x.viols[i].Unit = s.Prop, s.UnitName
	}
	fmt.Printf("schedule: %s\noutcome: %s\nstatus: %s\n", renderSchedule(x.res.Points), x.outcome, x.res.Status)
	return x.viols
}
