// Package eng holds what the three engines share: the unit/worker protocol, result
// accumulation, known-finding matching, evidence and replay files.
package eng

import (
	"encoding/json"
	"fmt"
	"hash/fnv"
	"os"
	"sort"
	"strings"
	"time"
)

// Violation is one failed assertion on one explored behaviour.
type Violation struct {
	Prop    string          `json:"property"`
	Unit    string          `json:"unit"`
	Assert  string          `json:"assert"`  // id of the assertion that failed
	Witness string          `json:"witness"` // abstracted description of what triggers it (known-finding key)
	Detail  string          `json:"detail"`  // expected vs observed
	Replay  json.RawMessage `json:"replay,omitempty"`
	Known   string          `json:"known,omitempty"` // id of the known finding it matches
	Stable  bool            `json:"stable"`          // reproduced identically on re-execution
	// ReadOnly marks a violation of a pure query (filter chain, aggregate): the state of
	// the implementation still conforms to the model, so the path need not be pruned
	// when the violation is a known finding.
	ReadOnly bool `json:"read_only,omitempty"`
	// Once marks a violation that the same process cannot observe twice (a data race
	// report: the detector prints each racing stack pair only once), so it is not
	// re-executed for stability.
	Once bool `json:"once,omitempty"`
	// Alt lists further witnesses under which the same fact may be listed as a known
	// finding: for a data race, the pairs formed with the CALLERS of the innermost
	// functions (a recorded race keeps its identity when a helper is extracted from, or
	// inlined into, one of the racing functions).
	Alt []string `json:"alt_witnesses,omitempty"`
}

func (v Violation) Key() string { return v.Prop + "|" + v.Assert + "|" + v.Witness }

// Acc accumulates what a run covered.
type Acc struct {
	Evaluations int64            `json:"evaluations"` // executions / paths / cases run
	Transitions int64            `json:"transitions"` // operations applied / scheduling steps taken
	Nodes       int64            `json:"nodes"`       // decision nodes (SCHED) or checked states (SEQ)
	States      map[uint64]bool  `json:"-"`           // distinct model states / outcomes (hashed)
	StateList   []uint64         `json:"states,omitempty"`
	Nontrivial  map[uint64]bool  `json:"-"`
	NontrivList []uint64         `json:"nontrivial,omitempty"`
	Outcomes    map[string]int64 `json:"outcomes,omitempty"` // observed outcome -> count (SCHED)
	Violations  []Violation      `json:"violations,omitempty"`
	KnownHits   map[string]int64 `json:"known_hits,omitempty"` // finding id -> times met
	Samples     []any            `json:"samples,omitempty"`
	Incomplete  []string         `json:"incomplete,omitempty"` // units/items cut by deadline or cap
	Notes       map[string]any   `json:"notes,omitempty"`
	MaxDepth    int              `json:"max_depth"`
	Errors      []string         `json:"errors,omitempty"` // harness errors (never violations)
}

func NewAcc() *Acc {
	return &Acc{States: map[uint64]bool{}, Nontrivial: map[uint64]bool{}, Outcomes: map[string]int64{}, KnownHits: map[string]int64{}, Notes: map[string]any{}}
}

func Hash(s string) uint64 {
	h := fnv.New64a()
	h.Write([]byte(s))
	return h.Sum64()
}

func (a *Acc) State(key string, nontrivial bool) {
	h := Hash(key)
	a.States[h] = true
	if nontrivial {
		a.Nontrivial[h] = true
	}
}

func (a *Acc) Sample(x any, max int) {
	if len(a.Samples) < max {
		a.Samples = append(a.Samples, x)
	}
}

// Pack prepares the accumulator for JSON transport.
func (a *Acc) Pack() {
	a.StateList = a.StateList[:0]
	for h := range a.States {
		a.StateList = append(a.StateList, h)
	}
	a.NontrivList = a.NontrivList[:0]
	for h := range a.Nontrivial {
		a.NontrivList = append(a.NontrivList, h)
	}
}

// Merge folds b (possibly just unpacked from JSON) into a.
func (a *Acc) Merge(b *Acc) {
	a.Evaluations += b.Evaluations
	a.Transitions += b.Transitions
	a.Nodes += b.Nodes
	for _, h := range b.StateList {
		a.States[h] = true
	}
	for h := range b.States {
		a.States[h] = true
	}
	for _, h := range b.NontrivList {
		a.Nontrivial[h] = true
	}
	for h := range b.Nontrivial {
		a.Nontrivial[h] = true
	}
	for k, v := range b.Outcomes {
		a.Outcomes[k] += v
	}
	for k, v := range b.KnownHits {
		a.KnownHits[k] += v
	}
	a.Violations = append(a.Violations, b.Violations...)
	for _, s := range b.Samples {
		a.Sample(s, 12)
	}
	a.Incomplete = append(a.Incomplete, b.Incomplete...)
	a.Errors = append(a.Errors, b.Errors...)
	if b.MaxDepth > a.MaxDepth {
		a.MaxDepth = b.MaxDepth
	}
	for k, v := range b.Notes {
		if old, ok := a.Notes[k]; ok {
			if of, ok1 := old.(float64); ok1 {
				if nf, ok2 := v.(float64); ok2 {
					a.Notes[k] = of + nf
					continue
				}
			}
		}
		a.Notes[k] = v
	}
}

// AddNote adds a numeric note (summed across workers).
func (a *Acc) AddNote(k string, n float64) {
	if old, ok := a.Notes[k].(float64); ok {
		a.Notes[k] = old + n
	} else {
		a.Notes[k] = n
	}
}

// Sub counts behaviours checked inside one engine step (e.g. filter chains evaluated
// at one layout); the engines move it into the accumulator's notes after every step.
var Sub = map[string]int64{}

func (a *Acc) TakeSub() {
	for k, n := range Sub {
		a.AddNote(k, float64(n))
		delete(Sub, k)
	}
}

// Ctx is what a unit gets when asked to explore.
type Ctx struct {
	Tier     string
	Deadline time.Time
	Known    *KnownFindings
	Acc      *Acc
	MaxViol  int
}

func (c *Ctx) Expired() bool { return time.Now().After(c.Deadline) }

// TooMany reports whether enough unknown violations were collected to stop.
func (c *Ctx) TooMany() bool {
	n := 0
	for _, v := range c.Acc.Violations {
		if v.Known == "" {
			n++
		}
	}
	return n >= c.MaxViol
}

// Report records a violation; it returns true when it matches a known finding.
func (c *Ctx) Report(v Violation) bool {
	if id := c.Known.Match(v); id != "" {
		c.Acc.KnownHits[id]++
		return true
	}
	// keep one violation per (assert, witness) and unit to bound the output
	for _, o := range c.Acc.Violations {
		if o.Key() == v.Key() && o.Unit == v.Unit {
			c.Acc.AddNote("duplicate_violations", 1)
			return false
		}
	}
	c.Acc.Violations = append(c.Acc.Violations, v)
	return false
}

// Unit is one independently explorable piece of a property check: a spec on a
// preset (SEQ), a scenario (SCHED) or a history (FAULT).
type Unit interface {
	Name() string
	// Explore explores the subtree rooted at the node described by prefix (nil =
	// root). With split set it processes only that node and returns the prefixes of
	// its children, which the coordinator hands out to workers.
	Explore(c *Ctx, prefix json.RawMessage, split bool) (children []json.RawMessage)
	// Replay re-executes the behaviour described by a violation's replay data and
	// returns the violations seen on it.
	Replay(c *Ctx, replay json.RawMessage) []Violation
	// SplitRoot says whether the root should be split across workers.
	SplitRoot() bool
}

// RaceUnit is implemented by units that must run in the -race build.
type RaceUnit interface{ UseRace() bool }

// Check is a property check: a list of units per tier plus evidence metadata.
type Check struct {
	Prop        string
	Level       string // evidence level
	Rule        string // how cases are enumerated and what counts as distinct/non-trivial
	Assumptions []string
	NodeStates  bool // report decision nodes of the schedule trees as states (pure SCHED checks)
	Units       func(tier string) []Unit
	Budget      func(tier string) time.Duration
	Bounds      func(tier string) map[string]any
}

var Checks = map[string]*Check{}

func Register(c *Check) { Checks[c.Prop] = c }

// ---------------------------------------------------------------- known findings

type Finding struct {
	Property string `json:"property"`
	ID       string `json:"id"`
	Assert   string `json:"assert"`
	Witness  string `json:"witness"`
	What     string `json:"what"`
}

type Fixed struct {
	Property string `json:"property"`
	Commit   string `json:"commit"`
	What     string `json:"what"`
}

type KnownFindings struct {
	Findings []Finding `json:"findings"`
	Fixed    []Fixed   `json:"fixed"`
}

func LoadKnown(path string) *KnownFindings {
	k := &KnownFindings{}
	b, err := os.ReadFile(path)
	if err != nil {
		return k
	}
	if err := json.Unmarshal(b, k); err != nil {
		fmt.Fprintln(os.Stderr, "known-findings:", err)
		os.Exit(2)
	}
	return k
}

// Match returns the id of the listed finding with the same property, assertion
// and witness, or "".
func (k *KnownFindings) Match(v Violation) string {
	if k == nil {
		return ""
	}
	for _, f := range k.Findings {
		if f.Property == v.Prop && assertMatch(f.Assert, v.Assert) && f.Witness == v.Witness {
			return f.ID
		}
	}
	for _, alt := range v.Alt {
		for _, f := range k.Findings {
			if f.Property == v.Prop && assertMatch(f.Assert, v.Assert) && f.Witness == alt {
				return f.ID
			}
		}
	}
	return ""
}

// assertMatch compares assertion ids; a listed id may contain "*" wildcards to cover
// the several readers of one fact (value/row-reader, value/txn-reader, value/any) or
// the copies it is observed on (@replica, @restored...).
func assertMatch(pat, a string) bool {
	parts := strings.Split(pat, "*")
	if len(parts) == 1 {
		return pat == a
	}
	if !strings.HasPrefix(a, parts[0]) {
		return false
	}
	a = a[len(parts[0]):]
	for i := 1; i < len(parts)-1; i++ {
		j := strings.Index(a, parts[i])
		if j < 0 {
			return false
		}
		a = a[j+len(parts[i]):]
	}
	return strings.HasSuffix(a, parts[len(parts)-1])
}

func (k *KnownFindings) ByID(id string) *Finding {
	for i := range k.Findings {
		if k.Findings[i].ID == id {
			return &k.Findings[i]
		}
	}
	return nil
}

// ---------------------------------------------------------------- evidence

type Evidence struct {
	PropertyID  string         `json:"property_id"`
	Tier        string         `json:"tier"`
	Seed        int            `json:"seed"`
	Level       string         `json:"level"`
	Coverage    map[string]any `json:"coverage"`
	Assumptions []string       `json:"assumptions"`
	WallS       float64        `json:"wall_s"`
	Violations  int            `json:"violations"`
}

func statesOf(ck *Check, a *Acc) int64 {
	if ck.NodeStates && a.Nodes > int64(len(a.States)) {
		return a.Nodes
	}
	return int64(len(a.States))
}

func WriteEvidence(path string, ck *Check, tier string, seed int, a *Acc, unitStats []map[string]any, wall float64, nviol int) error {
	cov := map[string]any{
		"evaluations":                   a.Evaluations,
		"distinct_nontrivial":           len(a.Nontrivial),
		"rule":                          ck.Rule,
		"samples":                       a.Samples,
		"states":                        statesOf(ck, a),
		"transitions":                   a.Transitions,
		"traces_validated_against_impl": a.Evaluations,
		"decision_nodes":                a.Nodes,
		"exhaustive":                    len(a.Incomplete) == 0 && len(a.Errors) == 0,
		"max_depth":                     a.MaxDepth,
		"units":                         unitStats,
		"known_finding_hits":            a.KnownHits,
		"explanation":                   "every trace is an execution of the compiled /repo code (no separate model), so traces_validated_against_impl = evaluations",
	}
	if ck.Bounds != nil {
		cov["bounds"] = ck.Bounds(tier)
	}
	if len(a.Incomplete) > 0 {
		sort.Strings(a.Incomplete)
		cov["incomplete"] = a.Incomplete
	}
	if len(a.Outcomes) > 0 {
		cov["distinct_outcomes"] = len(a.Outcomes)
		if len(a.Outcomes) <= 64 {
			cov["outcomes"] = a.Outcomes
		}
	}
	if len(a.Notes) > 0 {
		cov["notes"] = a.Notes
	}
	if len(a.Errors) > 0 {
		cov["harness_errors"] = a.Errors
	}
	if a.Samples == nil {
		cov["samples"] = []any{}
	}
	ev := Evidence{PropertyID: ck.Prop, Tier: tier, Seed: seed, Level: ck.Level, Coverage: cov,
		Assumptions: ck.Assumptions, WallS: wall, Violations: nviol}
	b, err := json.MarshalIndent(ev, "", " ")
	if err != nil {
		return err
	}
	return os.WriteFile(path, append(b, '\n'), 0o644)
}
