module colverif

go 1.23

require (
	github.com/kelindar/bitmap v1.4.1
	github.com/kelindar/column v0.0.0
	github.com/kelindar/intmap v1.1.0
	github.com/kelindar/iostream v1.3.0
	github.com/kelindar/simd v1.1.2
	github.com/kelindar/smutex v1.0.0
	github.com/klauspost/compress v1.16.6
	github.com/tidwall/btree v1.6.0
	github.com/zeebo/xxh3 v1.0.2
)

require github.com/klauspost/cpuid/v2 v2.2.5 // indirect

replace github.com/kelindar/column => /repo

replace github.com/kelindar/smutex => ./third/smutex

replace github.com/tidwall/btree => ./third/btree

replace github.com/kelindar/intmap => ./third/intmap
