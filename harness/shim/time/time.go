// Package time is the harness replacement for "time". Types are aliases of the
// real ones, so values flow freely between the code under test and the harness.
// Three things are owned by the harness: the clock (NowHook), tickers (TickerHook /
// Frozen) and nothing else.
package time

import "time"

type (
	Duration   = time.Duration
	Time       = time.Time
	Ticker     = time.Ticker
	Timer      = time.Timer
	Month      = time.Month
	Weekday    = time.Weekday
	Location   = time.Location
	ParseError = time.ParseError
)

const (
	Nanosecond  = time.Nanosecond
	Microsecond = time.Microsecond
	Millisecond = time.Millisecond
	Second      = time.Second
	Minute      = time.Minute
	Hour        = time.Hour

	Layout      = time.Layout
	ANSIC       = time.ANSIC
	UnixDate    = time.UnixDate
	RFC822      = time.RFC822
	RFC1123     = time.RFC1123
	RFC3339     = time.RFC3339
	RFC3339Nano = time.RFC3339Nano
	Kitchen     = time.Kitchen
	Stamp       = time.Stamp
	DateTime    = time.DateTime
	DateOnly    = time.DateOnly
	TimeOnly    = time.TimeOnly

	January  = time.January
	February = time.February
	Sunday   = time.Sunday
	Monday   = time.Monday
)

var (
	UTC   = time.UTC
	Local = time.Local
)

// NowHook replaces the wall clock (virtual time). Its default is a FIXED instant, so
// that package-level initialisers of the code under test (the commit-id seed) give
// the same value in every process: work items are split by one process and executed
// by others, which must see byte-identical snapshots.
var NowHook func() Time = func() Time { return time.Unix(1_700_000_000, 0) }

// Frozen makes NewTicker return tickers that never fire, unless TickerHook is set.
// The harness sets it at start-up so that no background pass runs on real time.
var Frozen bool

// TickerHook, when set, supplies the ticker (the harness then owns its channel).
var TickerHook func(d Duration) *Ticker

func Now() Time {
	if NowHook != nil {
		return NowHook()
	}
	return time.Now()
}

func Since(t Time) Duration { return Now().Sub(t) }
func Until(t Time) Duration { return t.Sub(Now()) }

func NewTicker(d Duration) *Ticker {
	if TickerHook != nil {
		if t := TickerHook(d); t != nil {
			return t
		}
	}
	if Frozen {
		if d <= 0 {
			panic("non-positive interval for NewTicker")
		}
		return &Ticker{C: make(chan Time)}
	}
	return time.NewTicker(d)
}

func Tick(d Duration) <-chan Time {
	if d <= 0 {
		return nil
	}
	return NewTicker(d).C
}

func Unix(sec, nsec int64) Time { return time.Unix(sec, nsec) }
func UnixMilli(ms int64) Time   { return time.UnixMilli(ms) }
func UnixMicro(us int64) Time   { return time.UnixMicro(us) }
func Date(y int, m Month, d, h, mi, s, ns int, l *Location) Time {
	return time.Date(y, m, d, h, mi, s, ns, l)
}
func Sleep(d Duration)                            { time.Sleep(d) }
func After(d Duration) <-chan Time                { return time.After(d) }
func AfterFunc(d Duration, f func()) *Timer       { return time.AfterFunc(d, f) }
func NewTimer(d Duration) *Timer                  { return time.NewTimer(d) }
func ParseDuration(s string) (Duration, error)    { return time.ParseDuration(s) }
func Parse(layout, value string) (Time, error)    { return time.Parse(layout, value) }
func FixedZone(name string, off int) *Location    { return time.FixedZone(name, off) }
func LoadLocation(name string) (*Location, error) { return time.LoadLocation(name) }
