// Package atomic is the harness replacement for "sync/atomic": every operation is
// a scheduling point (vsched.Atomic) followed by the real operation.
package atomic

import (
	"sync/atomic"
	"unsafe"

	"colverif/vsched"
)

func pt() {
	if vsched.On() {
		vsched.Atomic()
	}
}

func AddInt32(addr *int32, delta int32) int32             { pt(); return atomic.AddInt32(addr, delta) }
func AddInt64(addr *int64, delta int64) int64             { pt(); return atomic.AddInt64(addr, delta) }
func AddUint32(addr *uint32, delta uint32) uint32         { pt(); return atomic.AddUint32(addr, delta) }
func AddUint64(addr *uint64, delta uint64) uint64         { pt(); return atomic.AddUint64(addr, delta) }
func AddUintptr(addr *uintptr, d uintptr) uintptr         { pt(); return atomic.AddUintptr(addr, d) }
func LoadInt32(addr *int32) int32                         { pt(); return atomic.LoadInt32(addr) }
func LoadInt64(addr *int64) int64                         { pt(); return atomic.LoadInt64(addr) }
func LoadUint32(addr *uint32) uint32                      { pt(); return atomic.LoadUint32(addr) }
func LoadUint64(addr *uint64) uint64                      { pt(); return atomic.LoadUint64(addr) }
func LoadUintptr(addr *uintptr) uintptr                   { pt(); return atomic.LoadUintptr(addr) }
func LoadPointer(addr *unsafe.Pointer) unsafe.Pointer     { pt(); return atomic.LoadPointer(addr) }
func StoreInt32(addr *int32, v int32)                     { pt(); atomic.StoreInt32(addr, v) }
func StoreInt64(addr *int64, v int64)                     { pt(); atomic.StoreInt64(addr, v) }
func StoreUint32(addr *uint32, v uint32)                  { pt(); atomic.StoreUint32(addr, v) }
func StoreUint64(addr *uint64, v uint64)                  { pt(); atomic.StoreUint64(addr, v) }
func StoreUintptr(addr *uintptr, v uintptr)               { pt(); atomic.StoreUintptr(addr, v) }
func StorePointer(addr *unsafe.Pointer, v unsafe.Pointer) { pt(); atomic.StorePointer(addr, v) }
func SwapInt32(addr *int32, v int32) int32                { pt(); return atomic.SwapInt32(addr, v) }
func SwapInt64(addr *int64, v int64) int64                { pt(); return atomic.SwapInt64(addr, v) }
func SwapUint32(addr *uint32, v uint32) uint32            { pt(); return atomic.SwapUint32(addr, v) }
func SwapUint64(addr *uint64, v uint64) uint64            { pt(); return atomic.SwapUint64(addr, v) }
func SwapUintptr(addr *uintptr, v uintptr) uintptr        { pt(); return atomic.SwapUintptr(addr, v) }
func SwapPointer(addr *unsafe.Pointer, v unsafe.Pointer) unsafe.Pointer {
	pt()
	return atomic.SwapPointer(addr, v)
}
func CompareAndSwapInt32(addr *int32, o, n int32) bool {
	pt()
	return atomic.CompareAndSwapInt32(addr, o, n)
}
func CompareAndSwapInt64(addr *int64, o, n int64) bool {
	pt()
	return atomic.CompareAndSwapInt64(addr, o, n)
}
func CompareAndSwapUint32(addr *uint32, o, n uint32) bool {
	pt()
	return atomic.CompareAndSwapUint32(addr, o, n)
}
func CompareAndSwapUint64(addr *uint64, o, n uint64) bool {
	pt()
	return atomic.CompareAndSwapUint64(addr, o, n)
}
func CompareAndSwapUintptr(addr *uintptr, o, n uintptr) bool {
	pt()
	return atomic.CompareAndSwapUintptr(addr, o, n)
}
func CompareAndSwapPointer(addr *unsafe.Pointer, o, n unsafe.Pointer) bool {
	pt()
	return atomic.CompareAndSwapPointer(addr, o, n)
}
func AndInt32(addr *int32, mask int32) int32     { pt(); return atomic.AndInt32(addr, mask) }
func AndUint32(addr *uint32, mask uint32) uint32 { pt(); return atomic.AndUint32(addr, mask) }
func AndInt64(addr *int64, mask int64) int64     { pt(); return atomic.AndInt64(addr, mask) }
func AndUint64(addr *uint64, mask uint64) uint64 { pt(); return atomic.AndUint64(addr, mask) }
func OrInt32(addr *int32, mask int32) int32      { pt(); return atomic.OrInt32(addr, mask) }
func OrUint32(addr *uint32, mask uint32) uint32  { pt(); return atomic.OrUint32(addr, mask) }
func OrInt64(addr *int64, mask int64) int64      { pt(); return atomic.OrInt64(addr, mask) }
func OrUint64(addr *uint64, mask uint64) uint64  { pt(); return atomic.OrUint64(addr, mask) }

// Value mirrors atomic.Value.
type Value struct{ v atomic.Value }

func (v *Value) Load() any                    { pt(); return v.v.Load() }
func (v *Value) Store(val any)                { pt(); v.v.Store(val) }
func (v *Value) Swap(n any) any               { pt(); return v.v.Swap(n) }
func (v *Value) CompareAndSwap(o, n any) bool { pt(); return v.v.CompareAndSwap(o, n) }

type Bool struct{ v atomic.Bool }

func (x *Bool) Load() bool                    { pt(); return x.v.Load() }
func (x *Bool) Store(val bool)                { pt(); x.v.Store(val) }
func (x *Bool) Swap(n bool) bool              { pt(); return x.v.Swap(n) }
func (x *Bool) CompareAndSwap(o, n bool) bool { pt(); return x.v.CompareAndSwap(o, n) }

type Int32 struct{ v atomic.Int32 }

func (x *Int32) Load() int32                    { pt(); return x.v.Load() }
func (x *Int32) Store(val int32)                { pt(); x.v.Store(val) }
func (x *Int32) Swap(n int32) int32             { pt(); return x.v.Swap(n) }
func (x *Int32) CompareAndSwap(o, n int32) bool { pt(); return x.v.CompareAndSwap(o, n) }
func (x *Int32) Add(d int32) int32              { pt(); return x.v.Add(d) }

type Int64 struct{ v atomic.Int64 }

func (x *Int64) Load() int64                    { pt(); return x.v.Load() }
func (x *Int64) Store(val int64)                { pt(); x.v.Store(val) }
func (x *Int64) Swap(n int64) int64             { pt(); return x.v.Swap(n) }
func (x *Int64) CompareAndSwap(o, n int64) bool { pt(); return x.v.CompareAndSwap(o, n) }
func (x *Int64) Add(d int64) int64              { pt(); return x.v.Add(d) }

type Uint32 struct{ v atomic.Uint32 }

func (x *Uint32) Load() uint32                    { pt(); return x.v.Load() }
func (x *Uint32) Store(val uint32)                { pt(); x.v.Store(val) }
func (x *Uint32) Swap(n uint32) uint32            { pt(); return x.v.Swap(n) }
func (x *Uint32) CompareAndSwap(o, n uint32) bool { pt(); return x.v.CompareAndSwap(o, n) }
func (x *Uint32) Add(d uint32) uint32             { pt(); return x.v.Add(d) }

type Uint64 struct{ v atomic.Uint64 }

func (x *Uint64) Load() uint64                    { pt(); return x.v.Load() }
func (x *Uint64) Store(val uint64)                { pt(); x.v.Store(val) }
func (x *Uint64) Swap(n uint64) uint64            { pt(); return x.v.Swap(n) }
func (x *Uint64) CompareAndSwap(o, n uint64) bool { pt(); return x.v.CompareAndSwap(o, n) }
func (x *Uint64) Add(d uint64) uint64             { pt(); return x.v.Add(d) }

type Uintptr struct{ v atomic.Uintptr }

func (x *Uintptr) Load() uintptr                    { pt(); return x.v.Load() }
func (x *Uintptr) Store(val uintptr)                { pt(); x.v.Store(val) }
func (x *Uintptr) Swap(n uintptr) uintptr           { pt(); return x.v.Swap(n) }
func (x *Uintptr) CompareAndSwap(o, n uintptr) bool { pt(); return x.v.CompareAndSwap(o, n) }
func (x *Uintptr) Add(d uintptr) uintptr            { pt(); return x.v.Add(d) }

type Pointer[T any] struct{ v atomic.Pointer[T] }

func (x *Pointer[T]) Load() *T                    { pt(); return x.v.Load() }
func (x *Pointer[T]) Store(val *T)                { pt(); x.v.Store(val) }
func (x *Pointer[T]) Swap(n *T) *T                { pt(); return x.v.Swap(n) }
func (x *Pointer[T]) CompareAndSwap(o, n *T) bool { pt(); return x.v.CompareAndSwap(o, n) }
