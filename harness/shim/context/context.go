// Package context is the harness replacement for "context". Everything is the real
// thing except that WithCancel first consults a hook, which lets the harness own
// the context given to the background cleanup goroutine of a collection.
package context

import (
	"context"
	"time"
)

type (
	Context         = context.Context
	CancelFunc      = context.CancelFunc
	CancelCauseFunc = context.CancelCauseFunc
)

var (
	Canceled         = context.Canceled
	DeadlineExceeded = context.DeadlineExceeded
)

// WithCancelHook, when set and returning non-nil, supplies the context.
var WithCancelHook func(parent Context) (Context, CancelFunc)

func Background() Context { return context.Background() }
func TODO() Context       { return context.TODO() }

func WithCancel(parent Context) (Context, CancelFunc) {
	if WithCancelHook != nil {
		if c, f := WithCancelHook(parent); c != nil {
			return c, f
		}
	}
	return context.WithCancel(parent)
}

func WithCancelCause(parent Context) (Context, CancelCauseFunc) {
	return context.WithCancelCause(parent)
}
func WithTimeout(parent Context, d time.Duration) (Context, CancelFunc) {
	return context.WithTimeout(parent, d)
}
func WithDeadline(parent Context, t time.Time) (Context, CancelFunc) {
	return context.WithDeadline(parent, t)
}
func WithValue(parent Context, key, val any) Context { return context.WithValue(parent, key, val) }
func Cause(c Context) error                          { return context.Cause(c) }
func WithoutCancel(parent Context) Context           { return context.WithoutCancel(parent) }
func AfterFunc(ctx Context, f func()) (stop func() bool) {
	return context.AfterFunc(ctx, f)
}
