// Package sync is the harness replacement for the standard "sync" package. The
// files of the code under test are compiled (through a build overlay) against this
// package instead of the real one. Outside an exploration every operation is the
// real operation; inside one, the calling thread first reports the operation to the
// scheduler (vsched), is suspended until the model grants it, and then performs the
// real operation as well (which cannot block any more).
package sync

import (
	"runtime"
	"sync"
	"time"
	"unsafe"

	"colverif/vsched"
)

// Outside an exploration the code under test runs on ONE logical thread (the
// sequential and fault-enumerating engines; a watchdog goroutine at most waits for
// it). A lock that cannot be taken there is held by an earlier step of the same
// thread and will never be released: instead of letting the process die with "all
// goroutines are asleep", the acquisition panics after a grace period, which the
// engines report as a violation of the step that hung.
const selfDeadlockPatience = 5 * time.Second

type SelfDeadlock struct{ What string }

func (d SelfDeadlock) Error() string {
	return "verif: step never completes: " + d.What + " is still held by an earlier step of the same thread (waited " + selfDeadlockPatience.String() + ")"
}

func acquire(try func() bool, block func(), what string) {
	if try() {
		return
	}
	deadline := time.Now().Add(selfDeadlockPatience)
	for time.Now().Before(deadline) {
		runtime.Gosched()
		if try() {
			return
		}
		time.Sleep(200 * time.Microsecond)
	}
	panic(SelfDeadlock{What: what})
}

// Types that are not modelled are the real ones.
type (
	Locker    = sync.Locker
	Once      = sync.Once
	WaitGroup = sync.WaitGroup
	Cond      = sync.Cond
	Map       = sync.Map
)

func NewCond(l Locker) *Cond { return sync.NewCond(l) }

func OnceFunc(f func()) func() { return sync.OnceFunc(f) }

func OnceValue[T any](f func() T) func() T { return sync.OnceValue(f) }

func OnceValues[T1, T2 any](f func() (T1, T2)) func() (T1, T2) { return sync.OnceValues(f) }

// Mutex is a modelled mutual exclusion lock.
type Mutex struct {
	mu sync.Mutex
	st vsched.MutexState
}

func (m *Mutex) Lock() {
	if vsched.On() {
		vsched.MutexLock(&m.st)
		m.mu.Lock()
		return
	}
	acquire(m.mu.TryLock, m.mu.Lock, "a sync.Mutex")
}

func (m *Mutex) TryLock() bool {
	if vsched.On() {
		if !vsched.MutexTryLock(&m.st) {
			return false
		}
		m.mu.Lock()
		return true
	}
	return m.mu.TryLock()
}

func (m *Mutex) Unlock() {
	if vsched.On() {
		vsched.MutexUnlock(&m.st)
	}
	m.mu.Unlock()
}

// RWMutex is a modelled reader/writer lock.
type RWMutex struct {
	mu sync.RWMutex
	st vsched.RWState
}

func (rw *RWMutex) Lock() {
	if vsched.On() {
		vsched.RWLock(&rw.st)
		rw.mu.Lock()
		return
	}
	acquire(rw.mu.TryLock, rw.mu.Lock, "a sync.RWMutex (write side wanted)")
}

func (rw *RWMutex) TryLock() bool {
	if vsched.On() {
		if !vsched.RWTryLock(&rw.st) {
			return false
		}
		rw.mu.Lock()
		return true
	}
	return rw.mu.TryLock()
}

func (rw *RWMutex) Unlock() {
	if vsched.On() {
		vsched.RWUnlock(&rw.st)
	}
	rw.mu.Unlock()
}

func (rw *RWMutex) RLock() {
	if vsched.On() {
		vsched.RWRLock(&rw.st)
		rw.mu.RLock()
		return
	}
	acquire(rw.mu.TryRLock, rw.mu.RLock, "a sync.RWMutex (read side wanted)")
}

func (rw *RWMutex) TryRLock() bool {
	if vsched.On() {
		if !vsched.RWTryRLock(&rw.st) {
			return false
		}
		rw.mu.RLock()
		return true
	}
	return rw.mu.TryRLock()
}

func (rw *RWMutex) RUnlock() {
	if vsched.On() {
		vsched.RWRUnlock(&rw.st)
	}
	rw.mu.RUnlock()
}

func (rw *RWMutex) RLocker() Locker { return (*rlocker)(rw) }

type rlocker RWMutex

func (r *rlocker) Lock()   { (*RWMutex)(r).RLock() }
func (r *rlocker) Unlock() { (*RWMutex)(r).RUnlock() }

// Pool is a deterministic LIFO free list. The real sync.Pool is per-P and emptied by
// the garbage collector, which would make object reuse (and with it any state an
// object keeps across reuse) depend on the runtime; here reuse order is fixed. It
// is not a scheduling point. As with the real Pool, the only happens-before edge is
// from a Put of an item to the Get that returns that same item: the free list itself
// is manipulated in norace functions (fixed array, no append: runtime helpers are
// instrumented even inside norace functions) under a mutex whose events are hidden
// from the race detector.
type Pool struct {
	New func() any

	mu    sync.Mutex
	items [256]any
	n     int
}

func dataPtr(x any) unsafe.Pointer {
	return (*[2]unsafe.Pointer)(unsafe.Pointer(&x))[1]
}

//go:norace
func (p *Pool) pop() (x any) {
	if p.n > 0 {
		p.n--
		x = p.items[p.n]
		p.items[p.n] = nil
	}
	return x
}

//go:norace
func (p *Pool) push(x any) {
	if p.n < len(p.items) {
		p.items[p.n] = x
		p.n++
	}
}

func (p *Pool) Get() any {
	vsched.RaceDisable()
	p.mu.Lock()
	x := p.pop()
	p.mu.Unlock()
	vsched.RaceEnable()
	if x != nil {
		if vsched.RaceBuild {
			vsched.RaceAcquire(dataPtr(x))
		}
		return x
	}
	if p.New != nil {
		return p.New()
	}
	return nil
}

func (p *Pool) Put(x any) {
	if x == nil {
		return
	}
	if vsched.RaceBuild {
		vsched.RaceReleaseMerge(dataPtr(x))
	}
	vsched.RaceDisable()
	p.mu.Lock()
	p.push(x)
	p.mu.Unlock()
	vsched.RaceEnable()
}
