// mkoverlay copies Go source files while rewriting a fixed set of import paths
// to the harness shim packages, and (in overlay mode) emits a `go build -overlay`
// JSON file that maps each original file of the repository under test to its
// rewritten copy. Only import specs are touched; line numbers are preserved.
//
//	mkoverlay -repo /repo -out .build/ov -json .build/overlay.json   (overlay mode)
//	mkoverlay -copy <srcdir> -to <dstdir>                            (copy mode, for third/)
package main

import (
	"encoding/json"
	"flag"
	"fmt"
	"go/parser"
	"go/token"
	"os"
	"path/filepath"
	"sort"
	"strconv"
	"strings"
)

var rewrite = map[string]string{
	"sync":        "colverif/shim/sync",
	"sync/atomic": "colverif/shim/atomic",
	"time":        "colverif/shim/time",
	"context":     "colverif/shim/context",
}

type edit struct {
	off, end int
	text     string
}

// rewriteFile returns the rewritten source and whether anything changed.
func rewriteFile(path string) ([]byte, bool, error) {
	src, err := os.ReadFile(path)
	if err != nil {
		return nil, false, err
	}
	fset := token.NewFileSet()
	f, err := parser.ParseFile(fset, path, src, parser.ImportsOnly)
	if err != nil {
		return nil, false, err
	}
	var edits []edit
	for _, im := range f.Imports {
		p, err := strconv.Unquote(im.Path.Value)
		if err != nil {
			continue
		}
		np, ok := rewrite[p]
		if !ok {
			continue
		}
		name := ""
		if im.Name == nil {
			// keep the original package identifier: the shim packages use the same
			// package names, so nothing to add.
		} else {
			_ = name
		}
		off := fset.Position(im.Path.Pos()).Offset
		end := fset.Position(im.Path.End()).Offset
		edits = append(edits, edit{off, end, strconv.Quote(np)})
	}
	if len(edits) == 0 {
		return src, false, nil
	}
	sort.Slice(edits, func(i, j int) bool { return edits[i].off > edits[j].off })
	out := src
	for _, e := range edits {
		out = append(append(append([]byte{}, out[:e.off]...), e.text...), out[e.end:]...)
	}
	return out, true, nil
}

func goFiles(dir string) []string {
	ents, err := os.ReadDir(dir)
	if err != nil {
		fatal(err)
	}
	var out []string
	for _, e := range ents {
		n := e.Name()
		if e.IsDir() || !strings.HasSuffix(n, ".go") || strings.HasSuffix(n, "_test.go") {
			continue
		}
		out = append(out, filepath.Join(dir, n))
	}
	sort.Strings(out)
	return out
}

func fatal(err error) {
	fmt.Fprintln(os.Stderr, "mkoverlay:", err)
	os.Exit(2)
}

func main() {
	repo := flag.String("repo", "", "repository root (overlay mode)")
	out := flag.String("out", "", "directory for rewritten copies (overlay mode)")
	js := flag.String("json", "", "overlay json to write (overlay mode)")
	cp := flag.String("copy", "", "source dir (copy mode)")
	to := flag.String("to", "", "destination dir (copy mode)")
	flag.Parse()

	if *cp != "" {
		if err := os.MkdirAll(*to, 0o755); err != nil {
			fatal(err)
		}
		for _, f := range goFiles(*cp) {
			b, _, err := rewriteFile(f)
			if err != nil {
				fatal(err)
			}
			if err := os.WriteFile(filepath.Join(*to, filepath.Base(f)), b, 0o644); err != nil {
				fatal(err)
			}
		}
		return
	}

	abs, err := filepath.Abs(*repo)
	if err != nil {
		fatal(err)
	}
	repl := map[string]string{}
	n := 0
	for _, sub := range []string{"", "commit"} {
		dir := filepath.Join(abs, sub)
		odir := filepath.Join(*out, sub)
		if err := os.MkdirAll(odir, 0o755); err != nil {
			fatal(err)
		}
		for _, f := range goFiles(dir) {
			b, changed, err := rewriteFile(f)
			if err != nil {
				fatal(err)
			}
			if !changed {
				continue
			}
			dst, _ := filepath.Abs(filepath.Join(odir, filepath.Base(f)))
			// avoid touching unchanged copies so the build cache stays warm
			if old, err := os.ReadFile(dst); err != nil || string(old) != string(b) {
				if err := os.WriteFile(dst, b, 0o644); err != nil {
					fatal(err)
				}
			}
			repl[f] = dst
			n++
		}
	}
	data, _ := json.MarshalIndent(map[string]any{"Replace": repl}, "", " ")
	if err := os.WriteFile(*js, data, 0o644); err != nil {
		fatal(err)
	}
	fmt.Fprintf(os.Stderr, "mkoverlay: %d files rewritten\n", n)
}
