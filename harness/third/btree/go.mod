module github.com/tidwall/btree

go 1.19
