// Copyright 2020 Joshua J Baker. All rights reserved.
// Use of this source code is governed by an MIT-style
// license that can be found in the LICENSE file.
package btree

import "colverif/shim/atomic"

type ordered interface {
	~int | ~int8 | ~int16 | ~int32 | ~int64 |
		~uint | ~uint8 | ~uint16 | ~uint32 | ~uint64 | ~uintptr |
		~float32 | ~float64 | ~string
}

type copier[T any] interface {
	Copy() T
}

type isoCopier[T any] interface {
	IsoCopy() T
}

func degreeToMinMax(deg int) (min, max int) {
	if deg <= 0 {
		deg = 32
	} else if deg == 1 {
		deg = 2 // must have at least 2
	}
	max = deg*2 - 1 // max items per node. max children is +1
	min = max / 2
	return min, max
}

var gisoid uint64

func newIsoID() uint64 {
	return atomic.AddUint64(&gisoid, 1)
}

type mapPair[K ordered, V any] struct {
	// The `value` field should be before the `key` field because doing so
	// allows for the Go compiler to optimize away the `value` field when
	// it's a `struct{}`, which is the case for `btree.Set`.
	value V
	key   K
}

type Map[K ordered, V any] struct {
	isoid         uint64
	root          *mapNode[K, V]
	count         int
	empty         mapPair[K, V]
	min           int // min items
	max           int // max items
	copyValues    bool
	isoCopyValues bool
}

func NewMap[K ordered, V any](degree int) *Map[K, V] {
	m := new(Map[K, V])
	m.init(degree)
	return m
}

type mapNode[K ordered, V any] struct {
	isoid    uint64
	count    int
	items    []mapPair[K, V]
	children *[]*mapNode[K, V]
}

// Copy the node for safe isolation.
func (tr *Map[K, V]) copy(n *mapNode[K, V]) *mapNode[K, V] {
	n2 := new(mapNode[K, V])
	n2.isoid = tr.isoid
	n2.count = n.count
	n2.items = make([]mapPair[K, V], len(n.items), cap(n.items))
	copy(n2.items, n.items)
	if tr.copyValues {
		for i := 0; i < len(n2.items); i++ {
			n2.items[i].value =
				((interface{})(n2.items[i].value)).(copier[V]).Copy()
		}
	} else if tr.isoCopyValues {
		for i := 0; i < len(n2.items); i++ {
			n2.items[i].value =
				((interface{})(n2.items[i].value)).(isoCopier[V]).IsoCopy()
		}
	}
	if !n.leaf() {
		n2.children = new([]*mapNode[K, V])
		*n2.children = make([]*mapNode[K, V], len(*n.children), tr.max+1)
		copy(*n2.children, *n.children)
	}
	return n2
}

// isoLoad loads the provided node and, if needed, performs a copy-on-write.
func (tr *Map[K, V]) isoLoad(cn **mapNode[K, V], mut bool) *mapNode[K, V] {
	if mut && (*cn).isoid != tr.isoid {
		*cn = tr.copy(*cn)
	}
	return *cn
}

func (tr *Map[K, V]) Copy() *Map[K, V] {
	return tr.IsoCopy()
}

func (tr *Map[K, V]) IsoCopy() *Map[K, V] {
	tr2 := new(Map[K, V])
	*tr2 = *tr
	tr2.isoid = newIsoID()
	tr.isoid = newIsoID()
	return tr2
}

func (tr *Map[K, V]) newNode(leaf bool) *mapNode[K, V] {
	n := new(mapNode[K, V])
	n.isoid = tr.isoid
	if !leaf {
		n.children = new([]*mapNode[K, V])
	}
	return n
}

// leaf returns true if the node is a leaf.
func (n *mapNode[K, V]) leaf() bool {
	return n.children == nil
}

func (tr *Map[K, V]) search(n *mapNode[K, V], key K) (index int, found bool) {
	low, high := 0, len(n.items)
	for low < high {
		h := (low + high) / 2
		if !(key < n.items[h].key) {
			low = h + 1
		} else {
			high = h
		}
	}
	if low > 0 && !(n.items[low-1].key < key) {
		return low - 1, true
	}
	return low, false
}

func (tr *Map[K, V]) init(degree int) {
	if tr.min != 0 {
		return
	}
	tr.min, tr.max = degreeToMinMax(degree)
	_, tr.copyValues = ((interface{})(tr.empty.value)).(copier[V])
	if !tr.copyValues {
		_, tr.isoCopyValues = ((interface{})(tr.empty.value)).(isoCopier[V])
	}
}

// Set or replace a value for a key
func (tr *Map[K, V]) Set(key K, value V) (V, bool) {
	item := mapPair[K, V]{key: key, value: value}
	if tr.root == nil {
		tr.init(0)
		tr.root = tr.newNode(true)
		tr.root.items = append([]mapPair[K, V]{}, item)
		tr.root.count = 1
		tr.count = 1
		return tr.empty.value, false
	}
	prev, replaced, split := tr.nodeSet(&tr.root, item)
	if split {
		left := tr.root
		right, median := tr.nodeSplit(left)
		tr.root = tr.newNode(false)
		*tr.root.children = make([]*mapNode[K, V], 0, tr.max+1)
		*tr.root.children = append([]*mapNode[K, V]{}, left, right)
		tr.root.items = append([]mapPair[K, V]{}, median)
		tr.root.updateCount()
		return tr.Set(item.key, item.value)
	}
	if replaced {
		return prev, true
	}
	tr.count++
	return tr.empty.value, false
}

func (tr *Map[K, V]) nodeSplit(n *mapNode[K, V],
) (right *mapNode[K, V], median mapPair[K, V]) {
	i := tr.max / 2
	median = n.items[i]

	// right node
	right = tr.newNode(n.leaf())
	right.items = n.items[i+1:]
	if !n.leaf() {
		*right.children = (*n.children)[i+1:]
	}
	right.updateCount()

	// left node
	n.items[i] = tr.empty
	n.items = n.items[:i:i]
	if !n.leaf() {
		*n.children = (*n.children)[: i+1 : i+1]
	}
	n.updateCount()
	return right, median
}

func (n *mapNode[K, V]) updateCount() {
	n.count = len(n.items)
	if !n.leaf() {
		for i := 0; i < len(*n.children); i++ {
			n.count += (*n.children)[i].count
		}
	}
}

func (tr *Map[K, V]) nodeSet(pn **mapNode[K, V], item mapPair[K, V],
) (prev V, replaced bool, split bool) {
	n := tr.isoLoad(pn, true)
	i, found := tr.search(n, item.key)
	if found {
		prev = n.items[i].value
		n.items[i] = item
		return prev, true, false
	}
	if n.leaf() {
		if len(n.items) == tr.max {
			return tr.empty.value, false, true
		}
		n.items = append(n.items, tr.empty)
		copy(n.items[i+1:], n.items[i:])
		n.items[i] = item
		n.count++
		return tr.empty.value, false, false
	}
	prev, replaced, split = tr.nodeSet(&(*n.children)[i], item)
	if split {
		if len(n.items) == tr.max {
			return tr.empty.value, false, true
		}
		right, median := tr.nodeSplit((*n.children)[i])
		*n.children = append(*n.children, nil)
		copy((*n.children)[i+1:], (*n.children)[i:])
		(*n.children)[i+1] = right
		n.items = append(n.items, tr.empty)
		copy(n.items[i+1:], n.items[i:])
		n.items[i] = median
		return tr.nodeSet(&n, item)
	}
	if !replaced {
		n.count++
	}
	return prev, replaced, false
}

func (tr *Map[K, V]) Scan(iter func(key K, value V) bool) {
	tr.scan(iter, false)
}

func (tr *Map[K, V]) ScanMut(iter func(key K, value V) bool) {
	tr.scan(iter, true)
}

func (tr *Map[K, V]) scan(iter func(key K, value V) bool, mut bool) {
	if tr.root == nil {
		return
	}
	tr.nodeScan(&tr.root, iter, mut)
}

func (tr *Map[K, V]) nodeScan(cn **mapNode[K, V],
	iter func(key K, value V) bool, mut bool,
) bool {
	n := tr.isoLoad(cn, mut)
	if n.leaf() {
		for i := 0; i < len(n.items); i++ {
			if !iter(n.items[i].key, n.items[i].value) {
				return false
			}
		}
		return true
	}
	for i := 0; i < len(n.items); i++ {
		if !tr.nodeScan(&(*n.children)[i], iter, mut) {
			return false
		}
		if !iter(n.items[i].key, n.items[i].value) {
			return false
		}
	}
	return tr.nodeScan(&(*n.children)[len(*n.children)-1], iter, mut)
}

// Get a value for key.
func (tr *Map[K, V]) Get(key K) (V, bool) {
	return tr.get(key, false)
}

// GetMut gets a value for key.
// If needed, this may perform a copy the resulting value before returning.
//
// Mut methods are only useful when all of the following are true:
//   - The interior data of the value requires changes.
//   - The value is a pointer type.
//   - The BTree has been copied using `Copy()` or `IsoCopy()`.
//   - The value itself has a `Copy()` or `IsoCopy()` method.
//
// Mut methods may modify the tree structure and should have the same
// considerations as other mutable operations like Set, Delete, Clear, etc.
func (tr *Map[K, V]) GetMut(key K) (V, bool) {
	return tr.get(key, true)
}

func (tr *Map[K, V]) get(key K, mut bool) (V, bool) {
	if tr.root == nil {
		return tr.empty.value, false
	}
	n := tr.isoLoad(&tr.root, mut)
	for {
		i, found := tr.search(n, key)
		if found {
			return n.items[i].value, true
		}
		if n.leaf() {
			return tr.empty.value, false
		}
		n = tr.isoLoad(&(*n.children)[i], mut)
	}
}

// Len returns the number of items in the tree
func (tr *Map[K, V]) Len() int {
	return tr.count
}

// Delete a value for a key and returns the deleted value.
// Returns false if there was no value by that key found.
func (tr *Map[K, V]) Delete(key K) (V, bool) {
	if tr.root == nil {
		return tr.empty.value, false
	}
	prev, deleted := tr.delete(&tr.root, false, key)
	if !deleted {
		return tr.empty.value, false
	}
	if len(tr.root.items) == 0 && !tr.root.leaf() {
		tr.root = (*tr.root.children)[0]
	}
	tr.count--
	if tr.count == 0 {
		tr.root = nil
	}
	return prev.value, true
}

func (tr *Map[K, V]) delete(pn **mapNode[K, V], max bool, key K,
) (mapPair[K, V], bool) {
	n := tr.isoLoad(pn, true)
	var i int
	var found bool
	if max {
		i, found = len(n.items)-1, true
	} else {
		i, found = tr.search(n, key)
	}
	if n.leaf() {
		if found {
			// found the items at the leaf, remove it and return.
			prev := n.items[i]
			copy(n.items[i:], n.items[i+1:])
			n.items[len(n.items)-1] = tr.empty
			n.items = n.items[:len(n.items)-1]
			n.count--
			return prev, true
		}
		return tr.empty, false
	}

	var prev mapPair[K, V]
	var deleted bool
	if found {
		if max {
			i++
			prev, deleted = tr.delete(&(*n.children)[i], true, tr.empty.key)
		} else {
			prev = n.items[i]
			maxItem, _ := tr.delete(&(*n.children)[i], true, tr.empty.key)
			deleted = true
			n.items[i] = maxItem
		}
	} else {
		prev, deleted = tr.delete(&(*n.children)[i], max, key)
	}
	if !deleted {
		return tr.empty, false
	}
	n.count--
	if len((*n.children)[i].items) < tr.min {
		tr.nodeRebalance(n, i)
	}
	return prev, true
}

// nodeRebalance rebalances the child nodes following a delete operation.
// Provide the index of the child node with the number of items that fell
// below minItems.
func (tr *Map[K, V]) nodeRebalance(n *mapNode[K, V], i int) {
	if i == len(n.items) {
		i--
	}

	// ensure copy-on-write
	left := tr.isoLoad(&(*n.children)[i], true)
	right := tr.isoLoad(&(*n.children)[i+1], true)

	if len(left.items)+len(right.items) < tr.max {
		// Merges the left and right children nodes together as a single node
		// that includes (left,item,right), and places the contents into the
		// existing left node. Delete the right node altogether and move the
		// following items and child nodes to the left by one slot.

		// merge (left,item,right)
		left.items = append(left.items, n.items[i])
		left.items = append(left.items, right.items...)
		if !left.leaf() {
			*left.children = append(*left.children, *right.children...)
		}
		left.count += right.count + 1

		// move the items over one slot
		copy(n.items[i:], n.items[i+1:])
		n.items[len(n.items)-1] = tr.empty
		n.items = n.items[:len(n.items)-1]

		// move the children over one slot
		copy((*n.children)[i+1:], (*n.children)[i+2:])
		(*n.children)[len(*n.children)-1] = nil
		(*n.children) = (*n.children)[:len(*n.children)-1]
	} else if len(left.items) > len(right.items) {
		// move left -> right over one slot

		// Move the item of the parent node at index into the right-node first
		// slot, and move the left-node last item into the previously moved
		// parent item slot.
		right.items = append(right.items, tr.empty)
		copy(right.items[1:], right.items)
		right.items[0] = n.items[i]
		right.count++
		n.items[i] = left.items[len(left.items)-1]
		left.items[len(left.items)-1] = tr.empty
		left.items = left.items[:len(left.items)-1]
		left.count--

		if !left.leaf() {
			// move the left-node last child into the right-node first slot
			*right.children = append(*right.children, nil)
			copy((*right.children)[1:], *right.children)
			(*right.children)[0] = (*left.children)[len(*left.children)-1]
			(*left.children)[len(*left.children)-1] = nil
			(*left.children) = (*left.children)[:len(*left.children)-1]
			left.count -= (*right.children)[0].count
			right.count += (*right.children)[0].count
		}
	} else {
		// move left <- right over one slot

		// Same as above but the other direction
		left.items = append(left.items, n.items[i])
		left.count++
		n.items[i] = right.items[0]
		copy(right.items, right.items[1:])
		right.items[len(right.items)-1] = tr.empty
		right.items = right.items[:len(right.items)-1]
		right.count--

		if !left.leaf() {
			*left.children = append(*left.children, (*right.children)[0])
			copy(*right.children, (*right.children)[1:])
			(*right.children)[len(*right.children)-1] = nil
			*right.children = (*right.children)[:len(*right.children)-1]
			left.count += (*left.children)[len(*left.children)-1].count
			right.count -= (*left.children)[len(*left.children)-1].count
		}
	}
}

// Ascend the tree within the range [pivot, last]
// Pass nil for pivot to scan all item in ascending order
// Return false to stop iterating
func (tr *Map[K, V]) Ascend(pivot K, iter func(key K, value V) bool) {
	tr.ascend(pivot, iter, false)
}

func (tr *Map[K, V]) AscendMut(pivot K, iter func(key K, value V) bool) {
	tr.ascend(pivot, iter, true)
}

func (tr *Map[K, V]) ascend(pivot K, iter func(key K, value V) bool, mut bool) {
	if tr.root == nil {
		return
	}
	tr.nodeAscend(&tr.root, pivot, iter, mut)
}

// The return value of this function determines whether we should keep iterating
// upon this functions return.
func (tr *Map[K, V]) nodeAscend(cn **mapNode[K, V], pivot K,
	iter func(key K, value V) bool, mut bool,
) bool {
	n := tr.isoLoad(cn, mut)
	i, found := tr.search(n, pivot)
	if !found {
		if !n.leaf() {
			if !tr.nodeAscend(&(*n.children)[i], pivot, iter, mut) {
				return false
			}
		}
	}
	// We are either in the case that
	// - node is found, we should iterate through it starting at `i`,
	//   the index it was located at.
	// - node is not found, and TODO: fill in.
	for ; i < len(n.items); i++ {
		if !iter(n.items[i].key, n.items[i].value) {
			return false
		}
		if !n.leaf() {
			if !tr.nodeScan(&(*n.children)[i+1], iter, mut) {
				return false
			}
		}
	}
	return true
}

func (tr *Map[K, V]) Reverse(iter func(key K, value V) bool) {
	tr.reverse(iter, false)
}

func (tr *Map[K, V]) ReverseMut(iter func(key K, value V) bool) {
	tr.reverse(iter, true)
}

func (tr *Map[K, V]) reverse(iter func(key K, value V) bool, mut bool) {
	if tr.root == nil {
		return
	}
	tr.nodeReverse(&tr.root, iter, mut)
}

func (tr *Map[K, V]) nodeReverse(cn **mapNode[K, V],
	iter func(key K, value V) bool, mut bool,
) bool {
	n := tr.isoLoad(cn, mut)
	if n.leaf() {
		for i := len(n.items) - 1; i >= 0; i-- {
			if !iter(n.items[i].key, n.items[i].value) {
				return false
			}
		}
		return true
	}
	if !tr.nodeReverse(&(*n.children)[len(*n.children)-1], iter, mut) {
		return false
	}
	for i := len(n.items) - 1; i >= 0; i-- {
		if !iter(n.items[i].key, n.items[i].value) {
			return false
		}
		if !tr.nodeReverse(&(*n.children)[i], iter, mut) {
			return false
		}
	}
	return true
}

// Descend the tree within the range [pivot, first]
// Pass nil for pivot to scan all item in descending order
// Return false to stop iterating
func (tr *Map[K, V]) Descend(pivot K, iter func(key K, value V) bool) {
	tr.descend(pivot, iter, false)
}

func (tr *Map[K, V]) DescendMut(pivot K, iter func(key K, value V) bool) {
	tr.descend(pivot, iter, true)
}

func (tr *Map[K, V]) descend(
	pivot K,
	iter func(key K, value V) bool,
	mut bool,
) {
	if tr.root == nil {
		return
	}
	tr.nodeDescend(&tr.root, pivot, iter, mut)
}

func (tr *Map[K, V]) nodeDescend(cn **mapNode[K, V], pivot K,
	iter func(key K, value V) bool, mut bool,
) bool {
	n := tr.isoLoad(cn, mut)
	i, found := tr.search(n, pivot)
	if !found {
		if !n.leaf() {
			if !tr.nodeDescend(&(*n.children)[i], pivot, iter, mut) {
				return false
			}
		}
		i--
	}
	for ; i >= 0; i-- {
		if !iter(n.items[i].key, n.items[i].value) {
			return false
		}
		if !n.leaf() {
			if !tr.nodeReverse(&(*n.children)[i], iter, mut) {
				return false
			}
		}
	}
	return true
}

// Load is for bulk loading pre-sorted items
func (tr *Map[K, V]) Load(key K, value V) (V, bool) {
	item := mapPair[K, V]{key: key, value: value}
	if tr.root == nil {
		return tr.Set(item.key, item.value)
	}
	n := tr.isoLoad(&tr.root, true)
	for {
		n.count++ // optimistically update counts
		if n.leaf() {
			if len(n.items) < tr.max {
				if n.items[len(n.items)-1].key < item.key {
					n.items = append(n.items, item)
					tr.count++
					return tr.empty.value, false
				}
			}
			break
		}
		n = tr.isoLoad(&(*n.children)[len(*n.children)-1], true)
	}
	// revert the counts
	n = tr.root
	for {
		n.count--
		if n.leaf() {
			break
		}
		n = (*n.children)[len(*n.children)-1]
	}
	return tr.Set(item.key, item.value)
}

// Min returns the minimum item in tree.
// Returns nil if the treex has no items.
func (tr *Map[K, V]) Min() (K, V, bool) {
	return tr.minMut(false)
}

func (tr *Map[K, V]) MinMut() (K, V, bool) {
	return tr.minMut(true)
}

func (tr *Map[K, V]) minMut(mut bool) (key K, value V, ok bool) {
	if tr.root == nil {
		return key, value, false
	}
	n := tr.isoLoad(&tr.root, mut)
	for {
		if n.leaf() {
			item := n.items[0]
			return item.key, item.value, true
		}
		n = tr.isoLoad(&(*n.children)[0], mut)
	}
}

// Max returns the maximum item in tree.
// Returns nil if the tree has no items.
func (tr *Map[K, V]) Max() (K, V, bool) {
	return tr.maxMut(false)
}

func (tr *Map[K, V]) MaxMut() (K, V, bool) {
	return tr.maxMut(true)
}

func (tr *Map[K, V]) maxMut(mut bool) (K, V, bool) {
	if tr.root == nil {
		return tr.empty.key, tr.empty.value, false
	}
	n := tr.isoLoad(&tr.root, mut)
	for {
		if n.leaf() {
			item := n.items[len(n.items)-1]
			return item.key, item.value, true
		}
		n = tr.isoLoad(&(*n.children)[len(*n.children)-1], mut)
	}
}

// PopMin removes the minimum item in tree and returns it.
// Returns nil if the tree has no items.
func (tr *Map[K, V]) PopMin() (K, V, bool) {
	if tr.root == nil {
		return tr.empty.key, tr.empty.value, false
	}
	n := tr.isoLoad(&tr.root, true)
	var item mapPair[K, V]
	for {
		n.count-- // optimistically update counts
		if n.leaf() {
			item = n.items[0]
			if len(n.items) == tr.min {
				break
			}
			copy(n.items[:], n.items[1:])
			n.items[len(n.items)-1] = tr.empty
			n.items = n.items[:len(n.items)-1]
			tr.count--
			if tr.count == 0 {
				tr.root = nil
			}
			return item.key, item.value, true
		}
		n = tr.isoLoad(&(*n.children)[0], true)
	}
	// revert the counts
	n = tr.root
	for {
		n.count++
		if n.leaf() {
			break
		}
		n = (*n.children)[0]
	}
	value, deleted := tr.Delete(item.key)
	if deleted {
		return item.key, value, true
	}
	return tr.empty.key, tr.empty.value, false
}

// PopMax removes the maximum item in tree and returns it.
// Returns nil if the tree has no items.
func (tr *Map[K, V]) PopMax() (K, V, bool) {
	if tr.root == nil {
		return tr.empty.key, tr.empty.value, false
	}
	n := tr.isoLoad(&tr.root, true)
	var item mapPair[K, V]
	for {
		n.count-- // optimistically update counts
		if n.leaf() {
			item = n.items[len(n.items)-1]
			if len(n.items) == tr.min {
				break
			}
			n.items[len(n.items)-1] = tr.empty
			n.items = n.items[:len(n.items)-1]
			tr.count--
			if tr.count == 0 {
				tr.root = nil
			}
			return item.key, item.value, true
		}
		n = tr.isoLoad(&(*n.children)[len(*n.children)-1], true)
	}
	// revert the counts
	n = tr.root
	for {
		n.count++
		if n.leaf() {
			break
		}
		n = (*n.children)[len(*n.children)-1]
	}
	value, deleted := tr.Delete(item.key)
	if deleted {
		return item.key, value, true
	}
	return tr.empty.key, tr.empty.value, false
}

// GetAt returns the value at index.
// Return nil if the tree is empty or the index is out of bounds.
func (tr *Map[K, V]) GetAt(index int) (K, V, bool) {
	return tr.getAt(index, false)
}

func (tr *Map[K, V]) GetAtMut(index int) (K, V, bool) {
	return tr.getAt(index, true)
}

func (tr *Map[K, V]) getAt(index int, mut bool) (K, V, bool) {
	if tr.root == nil || index < 0 || index >= tr.count {
		return tr.empty.key, tr.empty.value, false
	}
	n := tr.isoLoad(&tr.root, mut)
	for {
		if n.leaf() {
			return n.items[index].key, n.items[index].value, true
		}
		i := 0
		for ; i < len(n.items); i++ {
			if index < (*n.children)[i].count {
				break
			} else if index == (*n.children)[i].count {
				return n.items[i].key, n.items[i].value, true
			}
			index -= (*n.children)[i].count + 1
		}
		n = tr.isoLoad(&(*n.children)[i], mut)
	}
}

// DeleteAt deletes the item at index.
// Return nil if the tree is empty or the index is out of bounds.
func (tr *Map[K, V]) DeleteAt(index int) (K, V, bool) {
	if tr.root == nil || index < 0 || index >= tr.count {
		return tr.empty.key, tr.empty.value, false
	}
	var pathbuf [8]uint8 // track the path
	path := pathbuf[:0]
	var item mapPair[K, V]
	n := tr.isoLoad(&tr.root, true)
outer:
	for {
		n.count-- // optimistically update counts
		if n.leaf() {
			// the index is the item position
			item = n.items[index]
			if len(n.items) == tr.min {
				path = append(path, uint8(index))
				break outer
			}
			copy(n.items[index:], n.items[index+1:])
			n.items[len(n.items)-1] = tr.empty
			n.items = n.items[:len(n.items)-1]
			tr.count--
			if tr.count == 0 {
				tr.root = nil
			}
			return item.key, item.value, true
		}
		i := 0
		for ; i < len(n.items); i++ {
			if index < (*n.children)[i].count {
				break
			} else if index == (*n.children)[i].count {
				item = n.items[i]
				path = append(path, uint8(i))
				break outer
			}
			index -= (*n.children)[i].count + 1
		}
		path = append(path, uint8(i))
		n = tr.isoLoad(&(*n.children)[i], true)
	}
	// revert the counts
	n = tr.root
	for i := 0; i < len(path); i++ {
		n.count++
		if !n.leaf() {
			n = (*n.children)[uint8(path[i])]
		}
	}
	value, deleted := tr.Delete(item.key)
	if deleted {
		return item.key, value, true
	}
	return tr.empty.key, tr.empty.value, false
}

// Height returns the height of the tree.
// Returns zero if tree has no items.
func (tr *Map[K, V]) Height() int {
	var height int
	if tr.root != nil {
		n := tr.root
		for {
			height++
			if n.leaf() {
				break
			}
			n = (*n.children)[0]
		}
	}
	return height
}

// MapIter represents an iterator for btree.Map
type MapIter[K ordered, V any] struct {
	tr      *Map[K, V]
	mut     bool
	seeked  bool
	atstart bool
	atend   bool
	stack   []mapIterStackItem[K, V]
	item    mapPair[K, V]
}

type mapIterStackItem[K ordered, V any] struct {
	n *mapNode[K, V]
	i int
}

// Iter returns a read-only iterator.
func (tr *Map[K, V]) Iter() MapIter[K, V] {
	return tr.iter(false)
}

func (tr *Map[K, V]) IterMut() MapIter[K, V] {
	return tr.iter(true)
}

func (tr *Map[K, V]) iter(mut bool) MapIter[K, V] {
	var iter MapIter[K, V]
	iter.tr = tr
	iter.mut = mut
	return iter
}

// Seek to item greater-or-equal-to key.
// Returns false if there was no item found.
func (iter *MapIter[K, V]) Seek(key K) bool {
	if iter.tr == nil {
		return false
	}
	iter.seeked = true
	iter.stack = iter.stack[:0]
	if iter.tr.root == nil {
		return false
	}
	n := iter.tr.isoLoad(&iter.tr.root, iter.mut)
	for {
		i, found := iter.tr.search(n, key)
		iter.stack = append(iter.stack, mapIterStackItem[K, V]{n, i})
		if found {
			iter.item = n.items[i]
			return true
		}
		if n.leaf() {
			iter.stack[len(iter.stack)-1].i--
			return iter.Next()
		}
		n = iter.tr.isoLoad(&(*n.children)[i], iter.mut)
	}
}

// First moves iterator to first item in tree.
// Returns false if the tree is empty.
func (iter *MapIter[K, V]) First() bool {
	if iter.tr == nil {
		return false
	}
	iter.atend = false
	iter.atstart = false
	iter.seeked = true
	iter.stack = iter.stack[:0]
	if iter.tr.root == nil {
		return false
	}
	n := iter.tr.isoLoad(&iter.tr.root, iter.mut)
	for {
		iter.stack = append(iter.stack, mapIterStackItem[K, V]{n, 0})
		if n.leaf() {
			break
		}
		n = iter.tr.isoLoad(&(*n.children)[0], iter.mut)
	}
	s := &iter.stack[len(iter.stack)-1]
	iter.item = s.n.items[s.i]
	return true
}

// Last moves iterator to last item in tree.
// Returns false if the tree is empty.
func (iter *MapIter[K, V]) Last() bool {
	if iter.tr == nil {
		return false
	}
	iter.seeked = true
	iter.stack = iter.stack[:0]
	if iter.tr.root == nil {
		return false
	}
	n := iter.tr.isoLoad(&iter.tr.root, iter.mut)
	for {
		iter.stack = append(iter.stack, mapIterStackItem[K, V]{n, len(n.items)})
		if n.leaf() {
			iter.stack[len(iter.stack)-1].i--
			break
		}
		n = iter.tr.isoLoad(&(*n.children)[len(n.items)], iter.mut)
	}
	s := &iter.stack[len(iter.stack)-1]
	iter.item = s.n.items[s.i]
	return true
}

// Next moves iterator to the next item in iterator.
// Returns false if the tree is empty or the iterator is at the end of
// the tree.
func (iter *MapIter[K, V]) Next() bool {
	if iter.tr == nil {
		return false
	}
	if !iter.seeked {
		return iter.First()
	}
	if len(iter.stack) == 0 {
		if iter.atstart {
			return iter.First() && iter.Next()
		}
		return false
	}
	s := &iter.stack[len(iter.stack)-1]
	s.i++
	if s.n.leaf() {
		if s.i == len(s.n.items) {
			for {
				iter.stack = iter.stack[:len(iter.stack)-1]
				if len(iter.stack) == 0 {
					iter.atend = true
					return false
				}
				s = &iter.stack[len(iter.stack)-1]
				if s.i < len(s.n.items) {
					break
				}
			}
		}
	} else {
		n := iter.tr.isoLoad(&(*s.n.children)[s.i], iter.mut)
		for {
			iter.stack = append(iter.stack, mapIterStackItem[K, V]{n, 0})
			if n.leaf() {
				break
			}
			n = iter.tr.isoLoad(&(*n.children)[0], iter.mut)
		}
	}
	s = &iter.stack[len(iter.stack)-1]
	iter.item = s.n.items[s.i]
	return true
}

// Prev moves iterator to the previous item in iterator.
// Returns false if the tree is empty or the iterator is at the beginning of
// the tree.
func (iter *MapIter[K, V]) Prev() bool {
	if iter.tr == nil {
		return false
	}
	if !iter.seeked {
		return false
	}
	if len(iter.stack) == 0 {
		if iter.atend {
			return iter.Last() && iter.Prev()
		}
		return false
	}
	s := &iter.stack[len(iter.stack)-1]
	if s.n.leaf() {
		s.i--
		if s.i == -1 {
			for {
				iter.stack = iter.stack[:len(iter.stack)-1]
				if len(iter.stack) == 0 {
					iter.atstart = true
					return false
				}
				s = &iter.stack[len(iter.stack)-1]
				s.i--
				if s.i > -1 {
					break
				}
			}
		}
	} else {
		n := iter.tr.isoLoad(&(*s.n.children)[s.i], iter.mut)
		for {
			iter.stack = append(iter.stack,
				mapIterStackItem[K, V]{n, len(n.items)})
			if n.leaf() {
				iter.stack[len(iter.stack)-1].i--
				break
			}
			n = iter.tr.isoLoad(&(*n.children)[len(n.items)], iter.mut)
		}
	}
	s = &iter.stack[len(iter.stack)-1]
	iter.item = s.n.items[s.i]
	return true
}

// Key returns the current iterator item key.
func (iter *MapIter[K, V]) Key() K {
	return iter.item.key
}

// Value returns the current iterator item value.
func (iter *MapIter[K, V]) Value() V {
	return iter.item.value
}

// Values returns all the values in order.
func (tr *Map[K, V]) Values() []V {
	return tr.values(false)
}

func (tr *Map[K, V]) ValuesMut() []V {
	return tr.values(true)
}

func (tr *Map[K, V]) values(mut bool) []V {
	values := make([]V, 0, tr.Len())
	if tr.root != nil {
		values = tr.nodeValues(&tr.root, values, mut)
	}
	return values
}

func (tr *Map[K, V]) nodeValues(cn **mapNode[K, V], values []V, mut bool) []V {
	n := tr.isoLoad(cn, mut)
	if n.leaf() {
		for i := 0; i < len(n.items); i++ {
			values = append(values, n.items[i].value)
		}
		return values
	}
	for i := 0; i < len(n.items); i++ {
		values = tr.nodeValues(&(*n.children)[i], values, mut)
		values = append(values, n.items[i].value)
	}
	return tr.nodeValues(&(*n.children)[len(*n.children)-1], values, mut)
}

// Keys returns all the keys in order.
func (tr *Map[K, V]) Keys() []K {
	keys := make([]K, 0, tr.Len())
	if tr.root != nil {
		keys = tr.root.keys(keys)
	}
	return keys
}

func (n *mapNode[K, V]) keys(keys []K) []K {
	if n.leaf() {
		for i := 0; i < len(n.items); i++ {
			keys = append(keys, n.items[i].key)
		}
		return keys
	}
	for i := 0; i < len(n.items); i++ {
		keys = (*n.children)[i].keys(keys)
		keys = append(keys, n.items[i].key)
	}
	return (*n.children)[len(*n.children)-1].keys(keys)
}

// KeyValues returns all the keys and values in order.
func (tr *Map[K, V]) KeyValues() ([]K, []V) {
	return tr.keyValues(false)
}

func (tr *Map[K, V]) KeyValuesMut() ([]K, []V) {
	return tr.keyValues(true)
}

func (tr *Map[K, V]) keyValues(mut bool) ([]K, []V) {
	keys := make([]K, 0, tr.Len())
	values := make([]V, 0, tr.Len())
	if tr.root != nil {
		keys, values = tr.nodeKeyValues(&tr.root, keys, values, mut)
	}
	return keys, values
}

func (tr *Map[K, V]) nodeKeyValues(cn **mapNode[K, V], keys []K, values []V,
	mut bool,
) ([]K, []V) {
	n := tr.isoLoad(cn, mut)
	if n.leaf() {
		for i := 0; i < len(n.items); i++ {
			keys = append(keys, n.items[i].key)
			values = append(values, n.items[i].value)
		}
		return keys, values
	}
	for i := 0; i < len(n.items); i++ {
		keys, values = tr.nodeKeyValues(&(*n.children)[i], keys, values, mut)
		keys = append(keys, n.items[i].key)
		values = append(values, n.items[i].value)
	}
	return tr.nodeKeyValues(&(*n.children)[len(*n.children)-1], keys, values,
		mut)
}

// Clear will delete all items.
func (tr *Map[K, V]) Clear() {
	tr.count = 0
	tr.root = nil
}
