// Copyright 2020 Joshua J Baker. All rights reserved.
// Use of this source code is governed by an MIT-style
// license that can be found in the LICENSE file.
package btree

import "colverif/shim/sync"

type BTreeG[T any] struct {
	isoid        uint64
	mu           *sync.RWMutex
	root         *node[T]
	count        int
	locks        bool
	copyItems    bool
	isoCopyItems bool
	less         func(a, b T) bool
	empty        T
	max          int
	min          int
}

type node[T any] struct {
	isoid    uint64
	count    int
	items    []T
	children *[]*node[T]
}

// PathHint is a utility type used with the *Hint() functions. Hints provide
// faster operations for clustered keys.
type PathHint struct {
	used [8]bool
	path [8]uint8
}

// Options for passing to New when creating a new BTree.
type Options struct {
	// Degree is used to define how many items and children each internal node
	// can contain before it must branch. For example, a degree of 2 will
	// create a 2-3-4 tree, where each node may contains 1-3 items and
	// 2-4 children. See https://en.wikipedia.org/wiki/2–3–4_tree.
	// Default is 32
	Degree int
	// NoLocks will disable locking. Otherwide a sync.RWMutex is used to
	// ensure all operations are safe across multiple goroutines.
	NoLocks bool
}

// New returns a new BTree
func NewBTreeG[T any](less func(a, b T) bool) *BTreeG[T] {
	return NewBTreeGOptions(less, Options{})
}

func NewBTreeGOptions[T any](less func(a, b T) bool, opts Options) *BTreeG[T] {
	tr := new(BTreeG[T])
	tr.isoid = newIsoID()
	tr.mu = new(sync.RWMutex)
	tr.locks = !opts.NoLocks
	tr.less = less
	tr.init(opts.Degree)
	return tr
}

func (tr *BTreeG[T]) init(degree int) {
	if tr.min != 0 {
		return
	}
	tr.min, tr.max = degreeToMinMax(degree)
	_, tr.copyItems = ((interface{})(tr.empty)).(copier[T])
	if !tr.copyItems {
		_, tr.isoCopyItems = ((interface{})(tr.empty)).(isoCopier[T])
	}
}

// Less is a convenience function that performs a comparison of two items
// using the same "less" function provided to New.
func (tr *BTreeG[T]) Less(a, b T) bool {
	return tr.less(a, b)
}

func (tr *BTreeG[T]) newNode(leaf bool) *node[T] {
	n := &node[T]{isoid: tr.isoid}
	if !leaf {
		n.children = new([]*node[T])
	}
	return n
}

// leaf returns true if the node is a leaf.
func (n *node[T]) leaf() bool {
	return n.children == nil
}

func (tr *BTreeG[T]) bsearch(n *node[T], key T) (index int, found bool) {
	low, high := 0, len(n.items)
	for low < high {
		h := (low + high) / 2
		if !tr.less(key, n.items[h]) {
			low = h + 1
		} else {
			high = h
		}
	}
	if low > 0 && !tr.less(n.items[low-1], key) {
		return low - 1, true
	}
	return low, false
}

func (tr *BTreeG[T]) find(n *node[T], key T, hint *PathHint, depth int,
) (index int, found bool) {
	if hint == nil {
		return tr.bsearch(n, key)
	}
	return tr.hintsearch(n, key, hint, depth)
}

func (tr *BTreeG[T]) hintsearch(n *node[T], key T, hint *PathHint, depth int,
) (index int, found bool) {
	// Best case finds the exact match, updates the hint and returns.
	// Worst case, updates the low and high bounds to binary search between.
	low := 0
	high := len(n.items) - 1
	if depth < 8 && hint.used[depth] {
		index = int(hint.path[depth])
		if index >= len(n.items) {
			// tail item
			if tr.Less(n.items[len(n.items)-1], key) {
				index = len(n.items)
				goto path_match
			}
			index = len(n.items) - 1
		}
		if tr.Less(key, n.items[index]) {
			if index == 0 || tr.Less(n.items[index-1], key) {
				goto path_match
			}
			high = index - 1
		} else if tr.Less(n.items[index], key) {
			low = index + 1
		} else {
			found = true
			goto path_match
		}
	}

	// Do a binary search between low and high
	// keep on going until low > high, where the guarantee on low is that
	// key >= items[low - 1]
	for low <= high {
		mid := low + ((high+1)-low)/2
		// if key >= n.items[mid], low = mid + 1
		// which implies that key >= everything below low
		if !tr.Less(key, n.items[mid]) {
			low = mid + 1
		} else {
			high = mid - 1
		}
	}

	// if low > 0, n.items[low - 1] >= key,
	// we have from before that key >= n.items[low - 1]
	// therefore key = n.items[low - 1],
	// and we have found the entry for key.
	// Otherwise we must keep searching for the key in index `low`.
	if low > 0 && !tr.Less(n.items[low-1], key) {
		index = low - 1
		found = true
	} else {
		index = low
		found = false
	}

path_match:
	if depth < 8 {
		hint.used[depth] = true
		var pathIndex uint8
		if n.leaf() && found {
			pathIndex = uint8(index + 1)
		} else {
			pathIndex = uint8(index)
		}
		if pathIndex != hint.path[depth] {
			hint.path[depth] = pathIndex
			for i := depth + 1; i < 8; i++ {
				hint.used[i] = false
			}
		}
	}
	return index, found
}

// SetHint sets or replace a value for a key using a path hint
func (tr *BTreeG[T]) SetHint(item T, hint *PathHint) (prev T, replaced bool) {
	if tr.locks {
		tr.mu.Lock()
		prev, replaced = tr.setHint(item, hint)
		tr.mu.Unlock()
	} else {
		prev, replaced = tr.setHint(item, hint)
	}
	return prev, replaced
}

func (tr *BTreeG[T]) setHint(item T, hint *PathHint) (prev T, replaced bool) {
	if tr.root == nil {
		tr.init(0)
		tr.root = tr.newNode(true)
		tr.root.items = append([]T{}, item)
		tr.root.count = 1
		tr.count = 1
		return tr.empty, false
	}
	prev, replaced, split := tr.nodeSet(&tr.root, item, hint, 0)
	if split {
		left := tr.isoLoad(&tr.root, true)
		right, median := tr.nodeSplit(left)
		tr.root = tr.newNode(false)
		*tr.root.children = make([]*node[T], 0, tr.max+1)
		*tr.root.children = append([]*node[T]{}, left, right)
		tr.root.items = append([]T{}, median)
		tr.root.updateCount()
		return tr.setHint(item, hint)
	}
	if replaced {
		return prev, true
	}
	tr.count++
	return tr.empty, false
}

// Set or replace a value for a key
func (tr *BTreeG[T]) Set(item T) (T, bool) {
	return tr.SetHint(item, nil)
}

func (tr *BTreeG[T]) nodeSplit(n *node[T]) (right *node[T], median T) {
	i := tr.max / 2
	median = n.items[i]

	// right node
	right = tr.newNode(n.leaf())
	right.items = n.items[i+1:]
	if !n.leaf() {
		*right.children = (*n.children)[i+1:]
	}
	right.updateCount()

	// left node
	n.items[i] = tr.empty
	n.items = n.items[:i:i]
	if !n.leaf() {
		*n.children = (*n.children)[: i+1 : i+1]
	}
	n.updateCount()

	return right, median
}

func (n *node[T]) updateCount() {
	n.count = len(n.items)
	if !n.leaf() {
		for i := 0; i < len(*n.children); i++ {
			n.count += (*n.children)[i].count
		}
	}
}

// Copy the node for safe isolation.
func (tr *BTreeG[T]) copy(n *node[T]) *node[T] {
	n2 := new(node[T])
	n2.isoid = tr.isoid
	n2.count = n.count
	n2.items = make([]T, len(n.items), cap(n.items))
	copy(n2.items, n.items)
	if tr.copyItems {
		for i := 0; i < len(n2.items); i++ {
			n2.items[i] = ((interface{})(n2.items[i])).(copier[T]).Copy()
		}
	} else if tr.isoCopyItems {
		for i := 0; i < len(n2.items); i++ {
			n2.items[i] = ((interface{})(n2.items[i])).(isoCopier[T]).IsoCopy()
		}
	}
	if !n.leaf() {
		n2.children = new([]*node[T])
		*n2.children = make([]*node[T], len(*n.children), tr.max+1)
		copy(*n2.children, *n.children)
	}
	return n2
}

// isoLoad loads the provided node and, if needed, performs a copy-on-write.
func (tr *BTreeG[T]) isoLoad(cn **node[T], mut bool) *node[T] {
	if mut && (*cn).isoid != tr.isoid {
		*cn = tr.copy(*cn)
	}
	return *cn
}

func (tr *BTreeG[T]) nodeSet(cn **node[T], item T,
	hint *PathHint, depth int,
) (prev T, replaced bool, split bool) {
	if (*cn).isoid != tr.isoid {
		*cn = tr.copy(*cn)
	}
	n := *cn
	var i int
	var found bool
	if hint == nil {
		i, found = tr.bsearch(n, item)
	} else {
		i, found = tr.hintsearch(n, item, hint, depth)
	}
	if found {
		prev = n.items[i]
		n.items[i] = item
		return prev, true, false
	}
	if n.leaf() {
		if len(n.items) == tr.max {
			return tr.empty, false, true
		}
		n.items = append(n.items, tr.empty)
		copy(n.items[i+1:], n.items[i:])
		n.items[i] = item
		n.count++
		return tr.empty, false, false
	}
	prev, replaced, split = tr.nodeSet(&(*n.children)[i], item, hint, depth+1)
	if split {
		if len(n.items) == tr.max {
			return tr.empty, false, true
		}
		right, median := tr.nodeSplit((*n.children)[i])
		*n.children = append(*n.children, nil)
		copy((*n.children)[i+1:], (*n.children)[i:])
		(*n.children)[i+1] = right
		n.items = append(n.items, tr.empty)
		copy(n.items[i+1:], n.items[i:])
		n.items[i] = median
		return tr.nodeSet(&n, item, hint, depth)
	}
	if !replaced {
		n.count++
	}
	return prev, replaced, false
}

func (tr *BTreeG[T]) Scan(iter func(item T) bool) {
	tr.scan(iter, false)
}
func (tr *BTreeG[T]) ScanMut(iter func(item T) bool) {
	tr.scan(iter, true)
}

func (tr *BTreeG[T]) scan(iter func(item T) bool, mut bool) {
	if tr.lock(mut) {
		defer tr.unlock(mut)
	}
	if tr.root == nil {
		return
	}
	tr.nodeScan(&tr.root, iter, mut)
}

func (tr *BTreeG[T]) nodeScan(cn **node[T], iter func(item T) bool, mut bool,
) bool {
	n := tr.isoLoad(cn, mut)
	if n.leaf() {
		for i := 0; i < len(n.items); i++ {
			if !iter(n.items[i]) {
				return false
			}
		}
		return true
	}
	for i := 0; i < len(n.items); i++ {
		if !tr.nodeScan(&(*n.children)[i], iter, mut) {
			return false
		}
		if !iter(n.items[i]) {
			return false
		}
	}
	return tr.nodeScan(&(*n.children)[len(*n.children)-1], iter, mut)
}

// Get a value for key
func (tr *BTreeG[T]) Get(key T) (T, bool) {
	return tr.getHint(key, nil, false)
}

func (tr *BTreeG[T]) GetMut(key T) (T, bool) {
	return tr.getHint(key, nil, true)
}

// GetHint gets a value for key using a path hint
func (tr *BTreeG[T]) GetHint(key T, hint *PathHint) (value T, ok bool) {
	return tr.getHint(key, hint, false)
}
func (tr *BTreeG[T]) GetHintMut(key T, hint *PathHint) (value T, ok bool) {
	return tr.getHint(key, hint, true)
}

// GetHint gets a value for key using a path hint
func (tr *BTreeG[T]) getHint(key T, hint *PathHint, mut bool) (T, bool) {
	if tr.lock(mut) {
		defer tr.unlock(mut)
	}
	if tr.root == nil {
		return tr.empty, false
	}
	n := tr.isoLoad(&tr.root, mut)
	depth := 0
	for {
		i, found := tr.find(n, key, hint, depth)
		if found {
			return n.items[i], true
		}
		if n.children == nil {
			return tr.empty, false
		}
		n = tr.isoLoad(&(*n.children)[i], mut)
		depth++
	}
}

// Len returns the number of items in the tree
func (tr *BTreeG[T]) Len() int {
	return tr.count
}

// Delete a value for a key and returns the deleted value.
// Returns false if there was no value by that key found.
func (tr *BTreeG[T]) Delete(key T) (T, bool) {
	return tr.DeleteHint(key, nil)
}

// DeleteHint deletes a value for a key using a path hint and returns the
// deleted value.
// Returns false if there was no value by that key found.
func (tr *BTreeG[T]) DeleteHint(key T, hint *PathHint) (T, bool) {
	if tr.lock(true) {
		defer tr.unlock(true)
	}
	return tr.deleteHint(key, hint)
}

func (tr *BTreeG[T]) deleteHint(key T, hint *PathHint) (T, bool) {
	if tr.root == nil {
		return tr.empty, false
	}
	prev, deleted := tr.delete(&tr.root, false, key, hint, 0)
	if !deleted {
		return tr.empty, false
	}
	if len(tr.root.items) == 0 && !tr.root.leaf() {
		tr.root = (*tr.root.children)[0]
	}
	tr.count--
	if tr.count == 0 {
		tr.root = nil
	}
	return prev, true
}

func (tr *BTreeG[T]) delete(cn **node[T], max bool, key T,
	hint *PathHint, depth int,
) (T, bool) {
	n := tr.isoLoad(cn, true)
	var i int
	var found bool
	if max {
		i, found = len(n.items)-1, true
	} else {
		i, found = tr.find(n, key, hint, depth)
	}
	if n.leaf() {
		if found {
			// found the items at the leaf, remove it and return.
			prev := n.items[i]
			copy(n.items[i:], n.items[i+1:])
			n.items[len(n.items)-1] = tr.empty
			n.items = n.items[:len(n.items)-1]
			n.count--
			return prev, true
		}
		return tr.empty, false
	}

	var prev T
	var deleted bool
	if found {
		if max {
			i++
			prev, deleted = tr.delete(&(*n.children)[i], true, tr.empty, nil, 0)
		} else {
			prev = n.items[i]
			maxItem, _ := tr.delete(&(*n.children)[i], true, tr.empty, nil, 0)
			deleted = true
			n.items[i] = maxItem
		}
	} else {
		prev, deleted = tr.delete(&(*n.children)[i], max, key, hint, depth+1)
	}
	if !deleted {
		return tr.empty, false
	}
	n.count--
	if len((*n.children)[i].items) < tr.min {
		tr.nodeRebalance(n, i)
	}
	return prev, true
}

// nodeRebalance rebalances the child nodes following a delete operation.
// Provide the index of the child node with the number of items that fell
// below minItems.
func (tr *BTreeG[T]) nodeRebalance(n *node[T], i int) {
	if i == len(n.items) {
		i--
	}

	// ensure copy-on-write
	left := tr.isoLoad(&(*n.children)[i], true)
	right := tr.isoLoad(&(*n.children)[i+1], true)

	if len(left.items)+len(right.items) < tr.max {
		// Merges the left and right children nodes together as a single node
		// that includes (left,item,right), and places the contents into the
		// existing left node. Delete the right node altogether and move the
		// following items and child nodes to the left by one slot.

		// merge (left,item,right)
		left.items = append(left.items, n.items[i])
		left.items = append(left.items, right.items...)
		if !left.leaf() {
			*left.children = append(*left.children, *right.children...)
		}
		left.count += right.count + 1

		// move the items over one slot
		copy(n.items[i:], n.items[i+1:])
		n.items[len(n.items)-1] = tr.empty
		n.items = n.items[:len(n.items)-1]

		// move the children over one slot
		copy((*n.children)[i+1:], (*n.children)[i+2:])
		(*n.children)[len(*n.children)-1] = nil
		(*n.children) = (*n.children)[:len(*n.children)-1]
	} else if len(left.items) > len(right.items) {
		// move left -> right over one slot

		// Move the item of the parent node at index into the right-node first
		// slot, and move the left-node last item into the previously moved
		// parent item slot.
		right.items = append(right.items, tr.empty)
		copy(right.items[1:], right.items)
		right.items[0] = n.items[i]
		right.count++
		n.items[i] = left.items[len(left.items)-1]
		left.items[len(left.items)-1] = tr.empty
		left.items = left.items[:len(left.items)-1]
		left.count--

		if !left.leaf() {
			// move the left-node last child into the right-node first slot
			*right.children = append(*right.children, nil)
			copy((*right.children)[1:], *right.children)
			(*right.children)[0] = (*left.children)[len(*left.children)-1]
			(*left.children)[len(*left.children)-1] = nil
			(*left.children) = (*left.children)[:len(*left.children)-1]
			left.count -= (*right.children)[0].count
			right.count += (*right.children)[0].count
		}
	} else {
		// move left <- right over one slot

		// Same as above but the other direction
		left.items = append(left.items, n.items[i])
		left.count++
		n.items[i] = right.items[0]
		copy(right.items, right.items[1:])
		right.items[len(right.items)-1] = tr.empty
		right.items = right.items[:len(right.items)-1]
		right.count--

		if !left.leaf() {
			*left.children = append(*left.children, (*right.children)[0])
			copy(*right.children, (*right.children)[1:])
			(*right.children)[len(*right.children)-1] = nil
			*right.children = (*right.children)[:len(*right.children)-1]
			left.count += (*left.children)[len(*left.children)-1].count
			right.count -= (*left.children)[len(*left.children)-1].count
		}
	}
}

// Ascend the tree within the range [pivot, last]
// Pass nil for pivot to scan all item in ascending order
// Return false to stop iterating
func (tr *BTreeG[T]) Ascend(pivot T, iter func(item T) bool) {
	tr.ascend(pivot, iter, false)
}
func (tr *BTreeG[T]) AscendMut(pivot T, iter func(item T) bool) {
	tr.ascend(pivot, iter, true)
}
func (tr *BTreeG[T]) ascend(pivot T, iter func(item T) bool, mut bool) {
	if tr.lock(mut) {
		defer tr.unlock(mut)
	}
	if tr.root == nil {
		return
	}
	tr.nodeAscend(&tr.root, pivot, nil, 0, iter, mut)
}

// The return value of this function determines whether we should keep iterating
// upon this functions return.
func (tr *BTreeG[T]) nodeAscend(cn **node[T], pivot T, hint *PathHint,
	depth int, iter func(item T) bool, mut bool,
) bool {
	n := tr.isoLoad(cn, mut)
	i, found := tr.find(n, pivot, hint, depth)
	if !found {
		if !n.leaf() {
			if !tr.nodeAscend(&(*n.children)[i], pivot, hint, depth+1, iter,
				mut) {
				return false
			}
		}
	}
	// We are either in the case that
	// - node is found, we should iterate through it starting at `i`,
	//   the index it was located at.
	// - node is not found, and TODO: fill in.
	for ; i < len(n.items); i++ {
		if !iter(n.items[i]) {
			return false
		}
		if !n.leaf() {
			if !tr.nodeScan(&(*n.children)[i+1], iter, mut) {
				return false
			}
		}
	}
	return true
}

func (tr *BTreeG[T]) Reverse(iter func(item T) bool) {
	tr.reverse(iter, false)
}
func (tr *BTreeG[T]) ReverseMut(iter func(item T) bool) {
	tr.reverse(iter, true)
}
func (tr *BTreeG[T]) reverse(iter func(item T) bool, mut bool) {
	if tr.lock(mut) {
		defer tr.unlock(mut)
	}
	if tr.root == nil {
		return
	}
	tr.nodeReverse(&tr.root, iter, mut)
}

func (tr *BTreeG[T]) nodeReverse(cn **node[T], iter func(item T) bool, mut bool,
) bool {
	n := tr.isoLoad(cn, mut)
	if n.leaf() {
		for i := len(n.items) - 1; i >= 0; i-- {
			if !iter(n.items[i]) {
				return false
			}
		}
		return true
	}
	if !tr.nodeReverse(&(*n.children)[len(*n.children)-1], iter, mut) {
		return false
	}
	for i := len(n.items) - 1; i >= 0; i-- {
		if !iter(n.items[i]) {
			return false
		}
		if !tr.nodeReverse(&(*n.children)[i], iter, mut) {
			return false
		}
	}
	return true
}

// Descend the tree within the range [pivot, first]
// Pass nil for pivot to scan all item in descending order
// Return false to stop iterating
func (tr *BTreeG[T]) Descend(pivot T, iter func(item T) bool) {
	tr.descend(pivot, iter, false)
}
func (tr *BTreeG[T]) DescendMut(pivot T, iter func(item T) bool) {
	tr.descend(pivot, iter, true)
}
func (tr *BTreeG[T]) descend(pivot T, iter func(item T) bool, mut bool) {
	if tr.lock(mut) {
		defer tr.unlock(mut)
	}
	if tr.root == nil {
		return
	}
	tr.nodeDescend(&tr.root, pivot, nil, 0, iter, mut)
}

func (tr *BTreeG[T]) nodeDescend(cn **node[T], pivot T, hint *PathHint,
	depth int, iter func(item T) bool, mut bool,
) bool {
	n := tr.isoLoad(cn, mut)
	i, found := tr.find(n, pivot, hint, depth)
	if !found {
		if !n.leaf() {
			if !tr.nodeDescend(&(*n.children)[i], pivot, hint, depth+1, iter,
				mut) {
				return false
			}
		}
		i--
	}
	for ; i >= 0; i-- {
		if !iter(n.items[i]) {
			return false
		}
		if !n.leaf() {
			if !tr.nodeReverse(&(*n.children)[i], iter, mut) {
				return false
			}
		}
	}
	return true
}

// Load is for bulk loading pre-sorted items
func (tr *BTreeG[T]) Load(item T) (T, bool) {
	if tr.lock(true) {
		defer tr.unlock(true)
	}
	if tr.root == nil {
		return tr.setHint(item, nil)
	}
	n := tr.isoLoad(&tr.root, true)
	for {
		n.count++ // optimistically update counts
		if n.leaf() {
			if len(n.items) < tr.max {
				if tr.Less(n.items[len(n.items)-1], item) {
					n.items = append(n.items, item)
					tr.count++
					return tr.empty, false
				}
			}
			break
		}
		n = tr.isoLoad(&(*n.children)[len(*n.children)-1], true)
	}
	// revert the counts
	n = tr.root
	for {
		n.count--
		if n.leaf() {
			break
		}
		n = (*n.children)[len(*n.children)-1]
	}
	return tr.setHint(item, nil)
}

// Min returns the minimum item in tree.
// Returns nil if the treex has no items.
func (tr *BTreeG[T]) Min() (T, bool) {
	return tr.minMut(false)
}

func (tr *BTreeG[T]) MinMut() (T, bool) {
	return tr.minMut(true)
}

func (tr *BTreeG[T]) minMut(mut bool) (T, bool) {
	if tr.lock(mut) {
		defer tr.unlock(mut)
	}
	if tr.root == nil {
		return tr.empty, false
	}
	n := tr.isoLoad(&tr.root, mut)
	for {
		if n.leaf() {
			return n.items[0], true
		}
		n = tr.isoLoad(&(*n.children)[0], mut)
	}
}

// Max returns the maximum item in tree.
// Returns nil if the tree has no items.
func (tr *BTreeG[T]) Max() (T, bool) {
	return tr.maxMut(false)
}

func (tr *BTreeG[T]) MaxMut() (T, bool) {
	return tr.maxMut(true)
}

func (tr *BTreeG[T]) maxMut(mut bool) (T, bool) {
	if tr.lock(mut) {
		defer tr.unlock(mut)
	}
	if tr.root == nil {
		return tr.empty, false
	}
	n := tr.isoLoad(&tr.root, mut)
	for {
		if n.leaf() {
			return n.items[len(n.items)-1], true
		}
		n = tr.isoLoad(&(*n.children)[len(*n.children)-1], mut)
	}
}

// PopMin removes the minimum item in tree and returns it.
// Returns nil if the tree has no items.
func (tr *BTreeG[T]) PopMin() (T, bool) {
	if tr.lock(true) {
		defer tr.unlock(true)
	}
	if tr.root == nil {
		return tr.empty, false
	}
	n := tr.isoLoad(&tr.root, true)
	var item T
	for {
		n.count-- // optimistically update counts
		if n.leaf() {
			item = n.items[0]
			if len(n.items) == tr.min {
				break
			}
			copy(n.items[:], n.items[1:])
			n.items[len(n.items)-1] = tr.empty
			n.items = n.items[:len(n.items)-1]
			tr.count--
			if tr.count == 0 {
				tr.root = nil
			}
			return item, true
		}
		n = tr.isoLoad(&(*n.children)[0], true)
	}
	// revert the counts
	n = tr.root
	for {
		n.count++
		if n.leaf() {
			break
		}
		n = (*n.children)[0]
	}
	return tr.deleteHint(item, nil)
}

// PopMax removes the maximum item in tree and returns it.
// Returns nil if the tree has no items.
func (tr *BTreeG[T]) PopMax() (T, bool) {
	if tr.lock(true) {
		defer tr.unlock(true)
	}
	if tr.root == nil {
		return tr.empty, false
	}
	n := tr.isoLoad(&tr.root, true)
	var item T
	for {
		n.count-- // optimistically update counts
		if n.leaf() {
			item = n.items[len(n.items)-1]
			if len(n.items) == tr.min {
				break
			}
			n.items[len(n.items)-1] = tr.empty
			n.items = n.items[:len(n.items)-1]
			tr.count--
			if tr.count == 0 {
				tr.root = nil
			}
			return item, true
		}
		n = tr.isoLoad(&(*n.children)[len(*n.children)-1], true)
	}
	// revert the counts
	n = tr.root
	for {
		n.count++
		if n.leaf() {
			break
		}
		n = (*n.children)[len(*n.children)-1]
	}
	return tr.deleteHint(item, nil)
}

// GetAt returns the value at index.
// Return nil if the tree is empty or the index is out of bounds.
func (tr *BTreeG[T]) GetAt(index int) (T, bool) {
	return tr.getAt(index, false)
}
func (tr *BTreeG[T]) GetAtMut(index int) (T, bool) {
	return tr.getAt(index, true)
}
func (tr *BTreeG[T]) getAt(index int, mut bool) (T, bool) {
	if tr.lock(mut) {
		defer tr.unlock(mut)
	}
	if tr.root == nil || index < 0 || index >= tr.count {
		return tr.empty, false
	}
	n := tr.isoLoad(&tr.root, mut)
	for {
		if n.leaf() {
			return n.items[index], true
		}
		i := 0
		for ; i < len(n.items); i++ {
			if index < (*n.children)[i].count {
				break
			} else if index == (*n.children)[i].count {
				return n.items[i], true
			}
			index -= (*n.children)[i].count + 1
		}
		n = tr.isoLoad(&(*n.children)[i], mut)
	}
}

// DeleteAt deletes the item at index.
// Return nil if the tree is empty or the index is out of bounds.
func (tr *BTreeG[T]) DeleteAt(index int) (T, bool) {
	if tr.lock(true) {
		defer tr.unlock(true)
	}
	if tr.root == nil || index < 0 || index >= tr.count {
		return tr.empty, false
	}
	var pathbuf [8]uint8 // track the path
	path := pathbuf[:0]
	var item T
	n := tr.isoLoad(&tr.root, true)
outer:
	for {
		n.count-- // optimistically update counts
		if n.leaf() {
			// the index is the item position
			item = n.items[index]
			if len(n.items) == tr.min {
				path = append(path, uint8(index))
				break outer
			}
			copy(n.items[index:], n.items[index+1:])
			n.items[len(n.items)-1] = tr.empty
			n.items = n.items[:len(n.items)-1]
			tr.count--
			if tr.count == 0 {
				tr.root = nil
			}
			return item, true
		}
		i := 0
		for ; i < len(n.items); i++ {
			if index < (*n.children)[i].count {
				break
			} else if index == (*n.children)[i].count {
				item = n.items[i]
				path = append(path, uint8(i))
				break outer
			}
			index -= (*n.children)[i].count + 1
		}
		path = append(path, uint8(i))
		n = tr.isoLoad(&(*n.children)[i], true)
	}
	// revert the counts
	var hint PathHint
	n = tr.root
	for i := 0; i < len(path); i++ {
		if i < len(hint.path) {
			hint.path[i] = uint8(path[i])
			hint.used[i] = true
		}
		n.count++
		if !n.leaf() {
			n = (*n.children)[uint8(path[i])]
		}
	}
	return tr.deleteHint(item, &hint)
}

// Height returns the height of the tree.
// Returns zero if tree has no items.
func (tr *BTreeG[T]) Height() int {
	if tr.lock(false) {
		defer tr.unlock(false)
	}
	var height int
	if tr.root != nil {
		n := tr.root
		for {
			height++
			if n.leaf() {
				break
			}
			n = (*n.children)[0]
		}
	}
	return height
}

// Walk iterates over all items in tree, in order.
// The items param will contain one or more items.
func (tr *BTreeG[T]) Walk(iter func(item []T) bool) {
	tr.walk(iter, false)
}
func (tr *BTreeG[T]) WalkMut(iter func(item []T) bool) {
	tr.walk(iter, true)
}
func (tr *BTreeG[T]) walk(iter func(item []T) bool, mut bool) {
	if tr.lock(mut) {
		defer tr.unlock(mut)
	}
	if tr.root == nil {
		return
	}
	tr.nodeWalk(&tr.root, iter, mut)
}

func (tr *BTreeG[T]) nodeWalk(cn **node[T], iter func(item []T) bool, mut bool,
) bool {
	n := tr.isoLoad(cn, mut)
	if n.leaf() {
		if !iter(n.items) {
			return false
		}
	} else {
		for i := 0; i < len(n.items); i++ {
			if !tr.nodeWalk(&(*n.children)[i], iter, mut) {
				return false
			}
			if !iter(n.items[i : i+1]) {
				return false
			}
		}
		if !tr.nodeWalk(&(*n.children)[len(n.items)], iter, mut) {
			return false
		}
	}
	return true
}

// Copy the tree. This is a copy-on-write operation and is very fast because
// it only performs a shadowed copy.
func (tr *BTreeG[T]) Copy() *BTreeG[T] {
	return tr.IsoCopy()
}

func (tr *BTreeG[T]) IsoCopy() *BTreeG[T] {
	if tr.lock(true) {
		defer tr.unlock(true)
	}
	tr.isoid = newIsoID()
	tr2 := new(BTreeG[T])
	*tr2 = *tr
	tr2.mu = new(sync.RWMutex)
	tr2.isoid = newIsoID()
	return tr2
}

func (tr *BTreeG[T]) lock(write bool) bool {
	if tr.locks {
		if write {
			tr.mu.Lock()
		} else {
			tr.mu.RLock()
		}
	}
	return tr.locks
}

func (tr *BTreeG[T]) unlock(write bool) {
	if write {
		tr.mu.Unlock()
	} else {
		tr.mu.RUnlock()
	}
}

// Iter represents an iterator
type IterG[T any] struct {
	tr      *BTreeG[T]
	mut     bool
	locked  bool
	seeked  bool
	atstart bool
	atend   bool
	stack   []iterStackItemG[T]
	item    T
}

type iterStackItemG[T any] struct {
	n *node[T]
	i int
}

// Iter returns a read-only iterator.
// The Release method must be called finished with iterator.
func (tr *BTreeG[T]) Iter() IterG[T] {
	return tr.iter(false)
}

func (tr *BTreeG[T]) IterMut() IterG[T] {
	return tr.iter(true)
}

func (tr *BTreeG[T]) iter(mut bool) IterG[T] {
	var iter IterG[T]
	iter.tr = tr
	iter.mut = mut
	iter.locked = tr.lock(iter.mut)
	return iter
}

// Seek to item greater-or-equal-to key.
// Returns false if there was no item found.
func (iter *IterG[T]) Seek(key T) bool {
	if iter.tr == nil {
		return false
	}
	iter.seeked = true
	iter.stack = iter.stack[:0]
	if iter.tr.root == nil {
		return false
	}
	n := iter.tr.isoLoad(&iter.tr.root, iter.mut)
	for {
		i, found := iter.tr.find(n, key, nil, 0)
		iter.stack = append(iter.stack, iterStackItemG[T]{n, i})
		if found {
			iter.item = n.items[i]
			return true
		}
		if n.leaf() {
			iter.stack[len(iter.stack)-1].i--
			return iter.Next()
		}
		n = iter.tr.isoLoad(&(*n.children)[i], iter.mut)
	}
}

// First moves iterator to first item in tree.
// Returns false if the tree is empty.
func (iter *IterG[T]) First() bool {
	if iter.tr == nil {
		return false
	}
	iter.atend = false
	iter.atstart = false
	iter.seeked = true
	iter.stack = iter.stack[:0]
	if iter.tr.root == nil {
		return false
	}
	n := iter.tr.isoLoad(&iter.tr.root, iter.mut)
	for {
		iter.stack = append(iter.stack, iterStackItemG[T]{n, 0})
		if n.leaf() {
			break
		}
		n = iter.tr.isoLoad(&(*n.children)[0], iter.mut)
	}
	s := &iter.stack[len(iter.stack)-1]
	iter.item = s.n.items[s.i]
	return true
}

// Last moves iterator to last item in tree.
// Returns false if the tree is empty.
func (iter *IterG[T]) Last() bool {
	if iter.tr == nil {
		return false
	}
	iter.seeked = true
	iter.stack = iter.stack[:0]
	if iter.tr.root == nil {
		return false
	}
	n := iter.tr.isoLoad(&iter.tr.root, iter.mut)
	for {
		iter.stack = append(iter.stack, iterStackItemG[T]{n, len(n.items)})
		if n.leaf() {
			iter.stack[len(iter.stack)-1].i--
			break
		}
		n = iter.tr.isoLoad(&(*n.children)[len(n.items)], iter.mut)
	}
	s := &iter.stack[len(iter.stack)-1]
	iter.item = s.n.items[s.i]
	return true
}

// Release the iterator.
func (iter *IterG[T]) Release() {
	if iter.tr == nil {
		return
	}
	if iter.locked {
		iter.tr.unlock(iter.mut)
		iter.locked = false
	}
	iter.stack = nil
	iter.tr = nil
}

// Next moves iterator to the next item in iterator.
// Returns false if the tree is empty or the iterator is at the end of
// the tree.
func (iter *IterG[T]) Next() bool {
	if iter.tr == nil {
		return false
	}
	if !iter.seeked {
		return iter.First()
	}
	if len(iter.stack) == 0 {
		if iter.atstart {
			return iter.First() && iter.Next()
		}
		return false
	}
	s := &iter.stack[len(iter.stack)-1]
	s.i++
	if s.n.leaf() {
		if s.i == len(s.n.items) {
			for {
				iter.stack = iter.stack[:len(iter.stack)-1]
				if len(iter.stack) == 0 {
					iter.atend = true
					return false
				}
				s = &iter.stack[len(iter.stack)-1]
				if s.i < len(s.n.items) {
					break
				}
			}
		}
	} else {
		n := iter.tr.isoLoad(&(*s.n.children)[s.i], iter.mut)
		for {
			iter.stack = append(iter.stack, iterStackItemG[T]{n, 0})
			if n.leaf() {
				break
			}
			n = iter.tr.isoLoad(&(*n.children)[0], iter.mut)
		}
	}
	s = &iter.stack[len(iter.stack)-1]
	iter.item = s.n.items[s.i]
	return true
}

// Prev moves iterator to the previous item in iterator.
// Returns false if the tree is empty or the iterator is at the beginning of
// the tree.
func (iter *IterG[T]) Prev() bool {
	if iter.tr == nil {
		return false
	}
	if !iter.seeked {
		return false
	}
	if len(iter.stack) == 0 {
		if iter.atend {
			return iter.Last() && iter.Prev()
		}
		return false
	}
	s := &iter.stack[len(iter.stack)-1]
	if s.n.leaf() {
		s.i--
		if s.i == -1 {
			for {
				iter.stack = iter.stack[:len(iter.stack)-1]
				if len(iter.stack) == 0 {
					iter.atstart = true
					return false
				}
				s = &iter.stack[len(iter.stack)-1]
				s.i--
				if s.i > -1 {
					break
				}
			}
		}
	} else {
		n := iter.tr.isoLoad(&(*s.n.children)[s.i], iter.mut)
		for {
			iter.stack = append(iter.stack, iterStackItemG[T]{n, len(n.items)})
			if n.leaf() {
				iter.stack[len(iter.stack)-1].i--
				break
			}
			n = iter.tr.isoLoad(&(*n.children)[len(n.items)], iter.mut)
		}
	}
	s = &iter.stack[len(iter.stack)-1]
	iter.item = s.n.items[s.i]
	return true
}

// Item returns the current iterator item.
func (iter *IterG[T]) Item() T {
	return iter.item
}

// Items returns all the items in order.
func (tr *BTreeG[T]) Items() []T {
	return tr.items(false)
}

func (tr *BTreeG[T]) ItemsMut() []T {
	return tr.items(true)
}

func (tr *BTreeG[T]) items(mut bool) []T {
	if tr.lock(mut) {
		defer tr.unlock(mut)
	}
	items := make([]T, 0, tr.Len())
	if tr.root != nil {
		items = tr.nodeItems(&tr.root, items, mut)
	}
	return items
}

func (tr *BTreeG[T]) nodeItems(cn **node[T], items []T, mut bool) []T {
	n := tr.isoLoad(cn, mut)
	if n.leaf() {
		return append(items, n.items...)
	}
	for i := 0; i < len(n.items); i++ {
		items = tr.nodeItems(&(*n.children)[i], items, mut)
		items = append(items, n.items[i])
	}
	return tr.nodeItems(&(*n.children)[len(*n.children)-1], items, mut)
}

// Clear will delete all items.
func (tr *BTreeG[T]) Clear() {
	if tr.lock(true) {
		defer tr.unlock(true)
	}
	tr.root = nil
	tr.count = 0
}

// Generic BTree
//
// Deprecated: use BTreeG
type Generic[T any] struct {
	*BTreeG[T]
}

// NewGeneric returns a generic BTree
//
// Deprecated: use NewBTreeG
func NewGeneric[T any](less func(a, b T) bool) *Generic[T] {
	return &Generic[T]{NewBTreeGOptions(less, Options{})}
}

// NewGenericOptions returns a generic BTree
//
// Deprecated: use NewBTreeGOptions
func NewGenericOptions[T any](less func(a, b T) bool, opts Options,
) *Generic[T] {
	return &Generic[T]{NewBTreeGOptions(less, opts)}
}

func (tr *Generic[T]) Copy() *Generic[T] {
	return &Generic[T]{tr.BTreeG.Copy()}
}
