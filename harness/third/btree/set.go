package btree

type Set[K ordered] struct {
	base Map[K, struct{}]
}

// Copy
func (tr *Set[K]) Copy() *Set[K] {
	tr2 := new(Set[K])
	tr2.base = *tr.base.Copy()
	return tr2
}

func (tr *Set[K]) IsoCopy() *Set[K] {
	tr2 := new(Set[K])
	tr2.base = *tr.base.IsoCopy()
	return tr2
}

// Insert an item
func (tr *Set[K]) Insert(key K) {
	tr.base.Set(key, struct{}{})
}

func (tr *Set[K]) Scan(iter func(key K) bool) {
	tr.base.Scan(func(key K, value struct{}) bool {
		return iter(key)
	})
}

// Get a value for key
func (tr *Set[K]) Contains(key K) bool {
	_, ok := tr.base.Get(key)
	return ok
}

// Len returns the number of items in the tree
func (tr *Set[K]) Len() int {
	return tr.base.Len()
}

// Delete an item
func (tr *Set[K]) Delete(key K) {
	tr.base.Delete(key)
}

// Ascend the tree within the range [pivot, last]
// Pass nil for pivot to scan all item in ascending order
// Return false to stop iterating
func (tr *Set[K]) Ascend(pivot K, iter func(key K) bool) {
	tr.base.Ascend(pivot, func(key K, value struct{}) bool {
		return iter(key)
	})
}

func (tr *Set[K]) Reverse(iter func(key K) bool) {
	tr.base.Reverse(func(key K, value struct{}) bool {
		return iter(key)
	})
}

// Descend the tree within the range [pivot, first]
// Pass nil for pivot to scan all item in descending order
// Return false to stop iterating
func (tr *Set[K]) Descend(pivot K, iter func(key K) bool) {
	tr.base.Descend(pivot, func(key K, value struct{}) bool {
		return iter(key)
	})
}

// Load is for bulk loading pre-sorted items
func (tr *Set[K]) Load(key K) {
	tr.base.Load(key, struct{}{})
}

// Min returns the minimum item in tree.
// Returns nil if the treex has no items.
func (tr *Set[K]) Min() (K, bool) {
	key, _, ok := tr.base.Min()
	return key, ok
}

// Max returns the maximum item in tree.
// Returns nil if the tree has no items.
func (tr *Set[K]) Max() (K, bool) {
	key, _, ok := tr.base.Max()
	return key, ok
}

// PopMin removes the minimum item in tree and returns it.
// Returns nil if the tree has no items.
func (tr *Set[K]) PopMin() (K, bool) {
	key, _, ok := tr.base.PopMin()
	return key, ok
}

// PopMax removes the maximum item in tree and returns it.
// Returns nil if the tree has no items.
func (tr *Set[K]) PopMax() (K, bool) {
	key, _, ok := tr.base.PopMax()
	return key, ok
}

// GetAt returns the value at index.
// Return nil if the tree is empty or the index is out of bounds.
func (tr *Set[K]) GetAt(index int) (K, bool) {
	key, _, ok := tr.base.GetAt(index)
	return key, ok
}

// DeleteAt deletes the item at index.
// Return nil if the tree is empty or the index is out of bounds.
func (tr *Set[K]) DeleteAt(index int) (K, bool) {
	key, _, ok := tr.base.DeleteAt(index)
	return key, ok
}

// Height returns the height of the tree.
// Returns zero if tree has no items.
func (tr *Set[K]) Height() int {
	return tr.base.Height()
}

// SetIter represents an iterator for btree.Set
type SetIter[K ordered] struct {
	base MapIter[K, struct{}]
}

// Iter returns a read-only iterator.
func (tr *Set[K]) Iter() SetIter[K] {
	return SetIter[K]{tr.base.Iter()}
}

// Seek to item greater-or-equal-to key.
// Returns false if there was no item found.
func (iter *SetIter[K]) Seek(key K) bool {
	return iter.base.Seek(key)
}

// First moves iterator to first item in tree.
// Returns false if the tree is empty.
func (iter *SetIter[K]) First() bool {
	return iter.base.First()
}

// Last moves iterator to last item in tree.
// Returns false if the tree is empty.
func (iter *SetIter[K]) Last() bool {
	return iter.base.Last()
}

// Next moves iterator to the next item in iterator.
// Returns false if the tree is empty or the iterator is at the end of
// the tree.
func (iter *SetIter[K]) Next() bool {
	return iter.base.Next()
}

// Prev moves iterator to the previous item in iterator.
// Returns false if the tree is empty or the iterator is at the beginning of
// the tree.
func (iter *SetIter[K]) Prev() bool {
	return iter.base.Prev()
}

// Key returns the current iterator item key.
func (iter *SetIter[K]) Key() K {
	return iter.base.Key()
}

// Keys returns all the keys in order.
func (tr *Set[K]) Keys() []K {
	return tr.base.Keys()
}

// Clear will delete all items.
func (tr *Set[K]) Clear() {
	tr.base.Clear()
}
