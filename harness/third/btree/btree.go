// Copyright 2020 Joshua J Baker. All rights reserved.
// Use of this source code is governed by an MIT-style
// license that can be found in the LICENSE file.
package btree

type BTree struct {
	base *BTreeG[any]
}

// New returns a new BTree
func New(less func(a, b any) bool) *BTree {
	if less == nil {
		panic("nil less")
	}
	return &BTree{base: NewBTreeG(less)}
}

// NewNonConcurrent returns a new BTree which is not safe for concurrent
// write operations by multiple goroutines.
//
// This is useful for when you do not need the BTree to manage the locking,
// but would rather do it yourself.
//
// Deprecated: use NewOptions
func NewNonConcurrent(less func(a, b any) bool) *BTree {
	if less == nil {
		panic("nil less")
	}
	return &BTree{base: NewBTreeGOptions(less, Options{NoLocks: true})}
}

// NewOptions returns a new BTree
func NewOptions(less func(a, b any) bool, opts Options) *BTree {
	if less == nil {
		panic("nil less")
	}
	return &BTree{base: NewBTreeGOptions(less, opts)}
}

// Less is a convenience function that performs a comparison of two items
// using the same "less" function provided to New.
func (tr *BTree) Less(a, b any) bool {
	return tr.base.Less(a, b)
}

// Set or replace a value for a key
// Returns the value for the replaced item or nil if the key was not found.
func (tr *BTree) Set(item any) (prev any) {
	return tr.SetHint(item, nil)
}

// SetHint sets or replace a value for a key using a path hint
// Returns the value for the replaced item or nil if the key was not found.
func (tr *BTree) SetHint(item any, hint *PathHint) (prev any) {
	if item == nil {
		panic("nil item")
	}
	v, ok := tr.base.SetHint(item, hint)
	if !ok {
		return nil
	}
	return v
}

// Get a value for key.
// Returns nil if the key was not found.
func (tr *BTree) Get(key any) any {
	return tr.getHintMut(key, nil, false)
}

func (tr *BTree) GetMut(key any) any {
	return tr.getHintMut(key, nil, true)
}

func (tr *BTree) GetHint(key any, hint *PathHint) any {
	return tr.getHintMut(key, hint, false)
}

func (tr *BTree) GetHintMut(key any, hint *PathHint) any {
	return tr.getHintMut(key, hint, true)
}

// GetHint gets a value for key using a path hint.
// Returns nil if the item was not found.
func (tr *BTree) getHintMut(key any, hint *PathHint, mut bool) (value any) {
	if key == nil {
		return nil
	}
	var v any
	var ok bool
	if mut {
		v, ok = tr.base.GetHintMut(key, hint)
	} else {
		v, ok = tr.base.GetHint(key, hint)
	}
	if !ok {
		return nil
	}
	return v
}

// Len returns the number of items in the tree
func (tr *BTree) Len() int {
	return tr.base.Len()
}

// Delete an item for a key.
// Returns the deleted value or nil if the key was not found.
func (tr *BTree) Delete(key any) (prev any) {
	return tr.DeleteHint(key, nil)
}

// DeleteHint deletes a value for a key using a path hint
// Returns the deleted value or nil if the key was not found.
func (tr *BTree) DeleteHint(key any, hint *PathHint) (prev any) {
	if key == nil {
		return nil
	}
	v, ok := tr.base.DeleteHint(key, nil)
	if !ok {
		return nil
	}
	return v
}

// Ascend the tree within the range [pivot, last]
// Pass nil for pivot to scan all item in ascending order
// Return false to stop iterating
func (tr *BTree) Ascend(pivot any, iter func(item any) bool) {
	if pivot == nil {
		tr.base.Scan(iter)
	} else {
		tr.base.Ascend(pivot, iter)
	}
}

func (tr *BTree) AscendMut(pivot any, iter func(item any) bool) {
	if pivot == nil {
		tr.base.ScanMut(iter)
	} else {
		tr.base.AscendMut(pivot, iter)
	}
}

// Descend the tree within the range [pivot, first]
// Pass nil for pivot to scan all item in descending order
// Return false to stop iterating
func (tr *BTree) Descend(pivot any, iter func(item any) bool) {
	if pivot == nil {
		tr.base.Reverse(iter)
	} else {
		tr.base.Descend(pivot, iter)
	}
}

func (tr *BTree) DescendMut(pivot any, iter func(item any) bool) {
	if pivot == nil {
		tr.base.ReverseMut(iter)
	} else {
		tr.base.DescendMut(pivot, iter)
	}
}

// Load is for bulk loading pre-sorted items
// If the load replaces and existing item then the value for the replaced item
// is returned.
func (tr *BTree) Load(item any) (prev any) {
	if item == nil {
		panic("nil item")
	}
	v, ok := tr.base.Load(item)
	if !ok {
		return nil
	}
	return v
}

// Min returns the minimum item in tree.
// Returns nil if the tree has no items.
func (tr *BTree) Min() any {
	v, ok := tr.base.Min()
	if !ok {
		return nil
	}
	return v
}

func (tr *BTree) MinMut() any {
	v, ok := tr.base.MinMut()
	if !ok {
		return nil
	}
	return v
}

// Max returns the maximum item in tree.
// Returns nil if the tree has no items.
func (tr *BTree) Max() any {
	v, ok := tr.base.Max()
	if !ok {
		return nil
	}
	return v
}

func (tr *BTree) MaxMut() any {
	v, ok := tr.base.Max()
	if !ok {
		return nil
	}
	return v
}

// PopMin removes the minimum item in tree and returns it.
// Returns nil if the tree has no items.
func (tr *BTree) PopMin() any {
	v, ok := tr.base.PopMin()
	if !ok {
		return nil
	}
	return v
}

// PopMax removes the maximum item in tree and returns it.
// Returns nil if the tree has no items.
func (tr *BTree) PopMax() any {
	v, ok := tr.base.PopMax()
	if !ok {
		return nil
	}
	return v
}

// GetAt returns the value at index.
// Return nil if the tree is empty or the index is out of bounds.
func (tr *BTree) GetAt(index int) any {
	v, ok := tr.base.GetAt(index)
	if !ok {
		return nil
	}
	return v
}

func (tr *BTree) GetAtMut(index int) any {
	v, ok := tr.base.GetAtMut(index)
	if !ok {
		return nil
	}
	return v
}

// DeleteAt deletes the item at index.
// Return nil if the tree is empty or the index is out of bounds.
func (tr *BTree) DeleteAt(index int) any {
	v, ok := tr.base.DeleteAt(index)
	if !ok {
		return nil
	}
	return v
}

// Height returns the height of the tree.
// Returns zero if tree has no items.
func (tr *BTree) Height() int {
	return tr.base.Height()
}

// Walk iterates over all items in tree, in order.
// The items param will contain one or more items.
func (tr *BTree) Walk(iter func(items []any)) {
	tr.base.Walk(func(items []any) bool {
		iter(items)
		return true
	})
}

func (tr *BTree) WalkMut(iter func(items []any)) {
	tr.base.WalkMut(func(items []any) bool {
		iter(items)
		return true
	})
}

// Copy the tree. This is a copy-on-write operation and is very fast because
// it only performs a shadowed copy.
func (tr *BTree) Copy() *BTree {
	return &BTree{base: tr.base.Copy()}
}

func (tr *BTree) IsoCopy() *BTree {
	return &BTree{base: tr.base.IsoCopy()}
}

// Clear will delete all items.
func (tr *BTree) Clear() {
	tr.base.Clear()
}

// Iter is an iterator for
type Iter struct {
	base IterG[any]
}

// Iter returns a read-only iterator.
// The Release method must be called finished with iterator.
func (tr *BTree) Iter() Iter {
	return Iter{tr.base.Iter()}
}

func (tr *BTree) IterMut() Iter {
	return Iter{tr.base.IterMut()}
}

// Seek to item greater-or-equal-to key.
// Returns false if there was no item found.
func (iter *Iter) Seek(key any) bool {
	return iter.base.Seek(key)
}

// First moves iterator to first item in tree.
// Returns false if the tree is empty.
func (iter *Iter) First() bool {
	return iter.base.First()
}

// Last moves iterator to last item in tree.
// Returns false if the tree is empty.
func (iter *Iter) Last() bool {
	return iter.base.Last()
}

// First moves iterator to first item in tree.
// Returns false if the tree is empty.
func (iter *Iter) Release() {
	iter.base.Release()
}

// Next moves iterator to the next item in iterator.
// Returns false if the tree is empty or the iterator is at the end of
// the tree.
func (iter *Iter) Next() bool {
	return iter.base.Next()
}

// Prev moves iterator to the previous item in iterator.
// Returns false if the tree is empty or the iterator is at the beginning of
// the tree.
func (iter *Iter) Prev() bool {
	return iter.base.Prev()
}

// Item returns the current iterator item.
func (iter *Iter) Item() any {
	return iter.base.Item()
}
