// Copyright (c) Roman Atachiants and contributors. All rights reserved.
// Licensed under the MIT license. See LICENSE file in the project root for details.

package smutex

import "colverif/shim/sync"

const shards = 128

// SMutex128 represents a sharded RWMutex that supports finer-granularity concurrency
// contron hence reducing potential contention.
type SMutex128 struct {
	mu [shards]struct {
		sync.RWMutex
		_ [40]byte // Padding to prevent false sharing
	}
}

// Lock locks rw for writing. If the lock is already locked for reading or writing,
// then Lock blocks until the lock is available.
func (rw *SMutex128) Lock(shard uint) {
	rw.mu[shard%shards].Lock()
}

// Unlock unlocks rw for writing. It is a run-time error if rw is not locked for
// writing on entry to Unlock.
func (rw *SMutex128) Unlock(shard uint) {
	rw.mu[shard%shards].Unlock()
}

// RLock locks rw for reading. It should not be used for recursive read locking; a
// blocked Lock call excludes new readers from acquiring the lock.
func (rw *SMutex128) RLock(shard uint) {
	rw.mu[shard%shards].RLock()
}

// RUnlock undoes a single RLock call and does not affect other simultaneous readers.
func (rw *SMutex128) RUnlock(shard uint) {
	rw.mu[shard%shards].RUnlock()
}
