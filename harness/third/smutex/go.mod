module github.com/kelindar/smutex

go 1.19
