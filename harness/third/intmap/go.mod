module github.com/kelindar/intmap

go 1.19
