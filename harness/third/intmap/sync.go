// Copyright (c) 2021, Roman Atachiants

package intmap

import "colverif/shim/sync"

// Sync is a thread-safe, map-like data-structure for int64s
type Sync struct {
	lock sync.RWMutex
	data *Map
}

// NewSync returns a thread-safe map initialized with n spaces and uses the stated fillFactor.
// The map will grow as needed.
func NewSync(size int, fillFactor float64) *Sync {
	return &Sync{
		data: New(size, fillFactor),
	}
}

// Load returns the value stored in the map for a key, or nil if no value is
// present. The ok result indicates whether value was found in the map.
func (m *Sync) Load(key uint32) (value uint32, ok bool) {
	m.lock.RLock()
	value, ok = m.data.Load(key)
	m.lock.RUnlock()
	return
}

// Store sets the value for a key.
func (m *Sync) Store(key, val uint32) {
	m.lock.Lock()
	m.data.Store(key, val)
	m.lock.Unlock()
}

// Delete deletes the value for a key.
func (m *Sync) Delete(key uint32) {
	m.lock.Lock()
	m.data.Delete(key)
	m.lock.Unlock()
}

// Count returns number of key/value pairs in the map.
func (m *Sync) Count() (count int) {
	m.lock.RLock()
	count = m.data.Count()
	m.lock.RUnlock()
	return
}

// LoadOrStore returns the existing value for the key if present. Otherwise, it stores
// and returns the given value returned by the handler. The loaded result is true if the
// value was loaded, false if stored.
func (m *Sync) LoadOrStore(key uint32, fn func() uint32) (value uint32, loaded bool) {
	if value, loaded = m.Load(key); loaded {
		return // fast-path
	}

	// Load or store again, with exclusive lock now
	m.lock.Lock()
	defer m.lock.Unlock()
	if value, loaded = m.data.Load(key); !loaded {
		value = fn()
		m.data.Store(key, value)
	}
	return
}

// Range calls f sequentially for each key and value present in the map. If f
// returns false, range stops the iteration.
func (m *Sync) Range(f func(key, value uint32) bool) {
	m.lock.RLock()
	m.data.Range(f)
	m.lock.RUnlock()
}
