// Copyright (c) 2021, Roman Atachiants
// Copyright (c) 2016, Brent Pedersen - Bioinformatics

package intmap

import (
	"math"
)

// isFree is the 'free' key
const isFree = 0

// Map is a map-like data-structure for int64s
type Map struct {
	data       []uint32 // Keys and values, interleaved keys
	fillFactor float64  // Desired fill factor
	threshold  int      // Threshold for resize
	count      int      // Number of elements in the map
	mask       uint32   // Mask to calculate the original bucket
	mask2      uint32   // Mask for collisions
	hasFreeKey bool     // Whether 'free' key exists
	freeVal    uint32   // Value of 'free' key
}

// New returns a map initialized with n spaces and uses the stated fillFactor.
// The map will grow as needed.
func New(size int, fillFactor float64) *Map {
	if fillFactor <= 0 || fillFactor >= 1 {
		panic("intmap: fill factor must be in (0, 1)")
	}
	if size <= 0 {
		panic("intmap: size must be positive")
	}

	capacity := arraySize(size, fillFactor)
	return &Map{
		data:       make([]uint32, 2*capacity),
		fillFactor: fillFactor,
		threshold:  int(math.Floor(float64(capacity) * fillFactor)),
		mask:       uint32(capacity - 1),
		mask2:      uint32(2*capacity - 1),
	}
}

// Load returns the value stored in the map for a key, or nil if no value is
// present. The ok result indicates whether value was found in the map.
func (m *Map) Load(key uint32) (uint32, bool) {
	if key == isFree {
		if m.hasFreeKey {
			return m.freeVal, true
		}
		return 0, false
	}

	ptr := bucketOf(key, m.mask)
	if ptr < 0 || ptr >= uint32(len(m.data)) { // Check to help to compiler to eliminate a bounds check below.
		return 0, false
	}

	switch m.data[ptr] {
	case isFree: // end of chain already
		return 0, false
	case key: // we check FREE prior to this call
		return m.data[ptr+1], true
	default:
		for {
			ptr = (ptr + 2) & m.mask2
			switch m.data[ptr] {
			case isFree:
				return 0, false
			case key:
				return m.data[ptr+1], true
			}
		}
	}
}

// Store sets the value for a key.
func (m *Map) Store(key, val uint32) {
	if key == isFree {
		if !m.hasFreeKey {
			m.count++
		}
		m.hasFreeKey = true
		m.freeVal = val
		return
	}

	ptr := bucketOf(key, m.mask)
	switch m.data[ptr] {
	case isFree: // end of chain already
		m.data[ptr] = key
		m.data[ptr+1] = val
		if m.count >= m.threshold {
			m.rehash()
		} else {
			m.count++
		}
		return
	case key: // overwrite existed value
		m.data[ptr+1] = val
		return
	default:
		for {
			ptr = (ptr + 2) & m.mask2
			switch m.data[ptr] {
			case isFree:
				m.data[ptr] = key
				m.data[ptr+1] = val
				if m.count >= m.threshold {
					m.rehash()
				} else {
					m.count++
				}
				return
			case key:
				m.data[ptr+1] = val
				return
			}
		}
	}
}

// Delete deletes the value for a key.
func (m *Map) Delete(key uint32) {
	if m.hasFreeKey && key == isFree {
		m.hasFreeKey = false
		m.count--
		return
	}

	ptr := bucketOf(key, m.mask)
	switch m.data[ptr] {
	case isFree: // end of chain already
		return
	case key:
		m.shiftKeys(ptr)
		m.count--
		return
	default:
		for {
			ptr = (ptr + 2) & m.mask2
			switch m.data[ptr] {
			case isFree:
				return
			case key:
				m.shiftKeys(ptr)
				m.count--
				return
			}
		}
	}
}

// Count returns number of key/value pairs in the map.
func (m *Map) Count() int {
	return m.count
}

// Range calls f sequentially for each key and value present in the map. If f
// returns false, range stops the iteration.
func (m *Map) Range(f func(key, value uint32) bool) {
	if m.hasFreeKey && !f(isFree, m.freeVal) {
		return
	}

	for i := 0; i < len(m.data); i += 2 {
		if k := m.data[i]; k != isFree {
			if !f(k, m.data[i+1]) {
				return
			}
		}
	}
}

// shiftKeys shifts entries with the same hash.
func (m *Map) shiftKeys(pos uint32) {
	var last, slot uint32
	var k uint32
	var data = m.data
	for {
		last = pos
		pos = (last + 2) & m.mask2
		for {
			k = data[pos]
			if k == isFree {
				data[last] = isFree
				return
			}

			slot = bucketOf(k, m.mask)
			if last <= pos {
				if last >= slot || slot > pos {
					break
				}
			} else {
				if last >= slot && slot > pos {
					break
				}
			}
			pos = (pos + 2) & m.mask2
		}
		data[last] = k
		data[last+1] = data[pos+1]
	}
}

// rehash rehashes the key space and resizes the map
func (m *Map) rehash() {
	newCapacity := len(m.data) * 2
	m.threshold = int(math.Floor(float64(newCapacity/2) * m.fillFactor))
	m.mask = uint32(newCapacity/2 - 1)
	m.mask2 = uint32(newCapacity - 1)

	// copy of original data
	data := make([]uint32, len(m.data))
	copy(data, m.data)

	m.data = make([]uint32, newCapacity)
	if m.hasFreeKey { // reset size
		m.count = 1
	} else {
		m.count = 0
	}

	var o uint32
	for i := 0; i < len(data); i += 2 {
		o = data[i]
		if o != isFree {
			m.Store(o, data[i+1])
		}
	}
}

// bucketOf calcultes the hash bucket for the integer key
func bucketOf(key, mask uint32) uint32 {
	h := key*0xdeece66d + 0xb
	return (h & mask) << 1
}

func capacityFor(x uint32) uint32 {
	if x == math.MaxUint32 {
		return x
	}

	if x == 0 {
		return 1
	}

	x--
	x |= x >> 1
	x |= x >> 2
	x |= x >> 4
	x |= x >> 8
	x |= x >> 16
	return x + 1
}

func arraySize(size int, fill float64) int {
	s := capacityFor(uint32(math.Ceil(float64(size) / fill)))
	if s < 2 {
		s = 2
	}

	return int(s)
}
