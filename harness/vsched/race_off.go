//go:build !race

package vsched

import "unsafe"

// RaceBuild reports whether the binary was built with -race.
const RaceBuild = false

func raceDisable() {}
func raceEnable()  {}

func RaceAcquire(p unsafe.Pointer)      {}
func RaceRelease(p unsafe.Pointer)      {}
func RaceReleaseMerge(p unsafe.Pointer) {}
func RaceDisable()                      {}
func RaceEnable()                       {}
