// Package vsched is a cooperative, deterministic thread scheduler used to explore
// interleavings of the real kelindar/column code. The shim packages (sync, atomic,
// context, time) call into it before every synchronisation operation; exactly one
// managed thread runs at a time (the baton holder) and at every operation the
// scheduler decides, from a recorded choice prefix or the default non-preemptive
// policy, which thread performs its pending operation next.
//
// All bookkeeping uses fixed-size arrays and plain fields and lives in //go:norace
// functions: in race builds the hand-offs between threads are hidden from the race
// detector (runtime.RaceDisable), so that the detector sees only the program's own
// synchronisation, and the bookkeeping itself must then not be instrumented.
package vsched

import (
	"fmt"
	"runtime"
	"time"
	"unsafe"
)

const (
	MaxThreads = 8
	MaxPoints  = 1 << 13
	MaxSteps   = 1 << 20
)

// Kind is the kind of a pending operation.
type Kind uint8

const (
	KStart      Kind = iota // thread start
	KMutexLock              // sync.Mutex.Lock
	KRWLock                 // RWMutex.Lock step 1: take writer mutex, announce
	KRWLockWait             // RWMutex.Lock step 2: wait for active readers to drain
	KRLock                  // RWMutex.RLock arrival
	KRLockWait              // RWMutex.RLock blocked behind an announced writer
	KAtomic                 // any atomic operation
	KYield                  // explicit yield placed by a driver in user code
	KTick                   // daemon (vacuum goroutine) idle, waiting for a tick
	KRelease                // lock release (only when PointOnRelease)
)

var kindNames = [...]string{"start", "mutex.lock", "rw.lock", "rw.lock.wait", "rw.rlock", "rw.rlock.wait", "atomic", "yield", "tick", "release"}

func (k Kind) String() string { return kindNames[k] }

// Status is the way an execution ended.
type Status uint8

const (
	StOK       Status = iota
	StDeadlock        // some thread unfinished and nothing enabled
	StHang            // watchdog fired: a thread blocked on something unmodelled
	StDiverged        // replay of the prefix saw different operations: harness error
	StOverflow        // too many points/steps
)

func (s Status) String() string {
	return [...]string{"ok", "deadlock", "hang", "diverged", "overflow"}[s]
}

// MutexState is the model of a sync.Mutex; it is embedded in the shim object.
type MutexState struct {
	exec   uint32
	ord    uint32
	locked bool
}

// RWState is the model of a sync.RWMutex and mirrors Go's implementation: a writer
// first takes the writer mutex and announces itself (readers arriving later queue
// up), then waits for the readers that were active at the announcement; Unlock
// grants every queued reader at once before the next writer can announce.
type RWState struct {
	exec      uint32
	ord       uint32
	wHeld     bool
	announced bool
	active    int32
	wait      int32
	blocked   [MaxThreads]bool
	granted   [MaxThreads]bool
}

// Choice is one entry of a schedule prefix: the chosen index into the canonical
// enabled list plus what was seen there (used to detect replay divergence).
type Choice struct {
	C    uint8 `json:"c"`
	N    uint8 `json:"n"`
	Cur  int8  `json:"t"`
	Kind Kind  `json:"k"`
}

// Point is a recorded choice point (two or more threads enabled).
type Point struct {
	N          uint8 // number of enabled threads
	C          uint8 // chosen index (0 = default)
	T          int8  // chosen thread
	Cur        int8  // thread that reached the point (-1: none/finished)
	CurEnabled bool  // the running thread could have continued
	Kind       Kind  // pending kind of the running thread
	Pre        uint8 // preemptions used before this point
	Alts       [MaxThreads]int8
}

type thread struct {
	wake     chan struct{}
	kind     Kind
	mu       *MutexState
	rw       *RWState
	finished bool
	daemon   bool
	panicVal any
}

type sched struct {
	n         int
	cur       int
	th        [MaxThreads]thread
	prefix    []Choice
	pos       int
	pts       [MaxPoints]Point
	preempt   int
	exec      uint32
	ord       uint32
	status    Status
	done      chan struct{}
	ticks     int
	steps     int
	ended     bool
	diverged  string
	releasePt bool
}

// active is true while an exploration execution is running; the shims consult it
// (through On) on every operation and fall through to the real primitive otherwise.
var active bool

// On reports whether an exploration execution is running. It is norace: the flag is
// written by the harness goroutine only while every managed thread is parked.
//
//go:norace
func On() bool { return active }

//go:norace
func setActive(v bool) { active = v }

// startSync / joinSync carry the two happens-before edges that must stay visible to
// the race detector although the hand-offs are hidden: harness set-up -> every
// thread, and every thread -> harness oracle.
var startSync, joinSync int32

var s sched

// Result describes one execution.
type Result struct {
	Status   Status
	Points   []Point
	Preempt  int
	Steps    int
	Panics   [MaxThreads]any
	Info     string
	Blocked  string
	Finished [MaxThreads]bool
}

// Opts configures one execution.
type Opts struct {
	Prefix         []Choice
	Ticks          int           // ticks available to an adopted daemon
	Daemon         *Daemon       // optional adopted daemon
	Timeout        time.Duration // watchdog (real time), default 60s
	PointOnRelease bool          // also schedule before lock releases
}

// Run executes the thread bodies under the scheduler, following the choice prefix
// and then the default policy (keep running the current thread while it is enabled,
// else the lowest-id enabled thread). It returns when no thread can run.
func Run(bodies []func(), o Opts) Result {
	if len(bodies)+1 > MaxThreads {
		panic("vsched: too many threads")
	}
	setup(len(bodies), o)
	setActive(true)
	RaceReleaseMerge(unsafe.Pointer(&startSync))
	for i := range bodies {
		body := bodies[i]
		id := i
		w := threadWake(i)
		go func() {
			park(w)
			RaceAcquire(unsafe.Pointer(&startSync))
			defer finish(id)
			body()
		}()
	}
	schedule()
	to := o.Timeout
	if to == 0 {
		to = 60 * time.Second
	}
	var res Result
	select {
	case <-doneChan():
	case <-time.After(to):
		setHang()
	}
	setActive(false)
	RaceAcquire(unsafe.Pointer(&joinSync))
	collect(&res)
	return res
}

//go:norace
func threadWake(i int) chan struct{} { return s.th[i].wake }

//go:norace
func doneChan() chan struct{} { return s.done }

//go:norace
func setHang() { s.status = StHang }

//go:norace
func setup(n int, o Opts) {
	s.exec++
	s.ord = 0
	s.n = n
	s.cur = -1
	s.prefix = o.Prefix
	s.pos = 0
	s.preempt = 0
	s.status = StOK
	s.steps = 0
	s.ended = false
	s.diverged = ""
	s.ticks = o.Ticks
	s.releasePt = o.PointOnRelease
	s.done = make(chan struct{}, 1)
	for i := 0; i < n; i++ {
		s.th[i] = thread{wake: make(chan struct{}, 1), kind: KStart}
	}
	if o.Daemon != nil {
		s.th[n] = thread{wake: o.Daemon.wake, kind: KTick, daemon: true}
		o.Daemon.id = n
		o.Daemon.adopted = s.exec
		s.n = n + 1
	}
}

//go:norace
func collect(res *Result) {
	res.Status = s.status
	res.Preempt = s.preempt
	res.Steps = s.steps
	res.Points = make([]Point, s.pos)
	copy(res.Points, s.pts[:s.pos])
	res.Info = s.diverged
	for i := 0; i < s.n; i++ {
		res.Panics[i] = s.th[i].panicVal
		res.Finished[i] = s.th[i].finished
		if !s.th[i].finished && !(s.th[i].daemon && s.th[i].kind == KTick) {
			res.Blocked += fmt.Sprintf("[t%d blocked at %s]", i, s.th[i].kind)
		}
	}
}

func park(w chan struct{}) {
	raceDisable()
	<-w
	raceEnable()
}

func wakeup(w chan struct{}) {
	raceDisable()
	w <- struct{}{}
	raceEnable()
}

func finish(id int) {
	if r := recover(); r != nil {
		setPanic(id, r)
	}
	RaceReleaseMerge(unsafe.Pointer(&joinSync))
	finishSched(id)
}

//go:norace
func setPanic(id int, r any) { s.th[id].panicVal = r }

//go:norace
func finishSched(id int) {
	s.th[id].finished = true
	if s.ended {
		return
	}
	schedule()
}

//go:norace
func enabled(i int) bool {
	t := &s.th[i]
	switch t.kind {
	case KMutexLock:
		return !t.mu.locked
	case KRWLock:
		return !t.rw.wHeld
	case KRWLockWait:
		return t.rw.wait == 0
	case KRLockWait:
		return t.rw.granted[i]
	case KTick:
		return s.ticks > 0
	}
	return true
}

// schedule is called by the running thread with its pending operation published
// (or by Run / a finishing thread). It returns when the caller is chosen to run.
//
//go:norace
func schedule() {
	me := s.cur
	var list [MaxThreads]int8
	n := 0
	meLive := me >= 0 && !s.th[me].finished
	if meLive && enabled(me) {
		list[0] = int8(me)
		n = 1
	}
	curEnabled := n == 1
	for i := 0; i < s.n; i++ {
		if i != me && !s.th[i].finished && enabled(i) {
			list[n] = int8(i)
			n++
		}
	}
	s.steps++
	if s.steps > MaxSteps || s.pos >= MaxPoints-1 {
		s.status = StOverflow
		n = 0
	}
	if n == 0 {
		// nothing can run: normal end, or deadlock if somebody is stuck
		if s.status == StOK {
			for i := 0; i < s.n; i++ {
				if !s.th[i].finished && !(s.th[i].daemon && s.th[i].kind == KTick) {
					s.status = StDeadlock
				}
			}
		}
		s.ended = true
		s.cur = -1
		wakeup(s.done)
		if meLive {
			park(s.th[me].wake) // forever (or until a daemon is cancelled)
		}
		return
	}
	c := 0
	if n > 1 {
		kind := KStart
		if meLive {
			kind = s.th[me].kind
		}
		if s.pos < len(s.prefix) {
			p := s.prefix[s.pos]
			c = int(p.C)
			if int(p.N) != n || int(p.Cur) != me || p.Kind != kind || c >= n {
				s.status = StDiverged
				s.diverged = "replay divergence at choice point"
				s.ended = true
				s.cur = -1
				wakeup(s.done)
				if meLive {
					park(s.th[me].wake)
				}
				return
			}
		}
		pt := &s.pts[s.pos]
		pt.N, pt.C, pt.T, pt.Cur, pt.CurEnabled, pt.Kind, pt.Pre = uint8(n), uint8(c), list[c], int8(me), curEnabled, kind, uint8(s.preempt)
		pt.Alts = list
		if c != 0 && curEnabled {
			s.preempt++
		}
		s.pos++
	}
	next := int(list[c])
	if s.th[next].kind == KTick {
		// the daemon consumes one tick and becomes an ordinary running thread
		s.ticks--
		s.th[next].kind = KYield
	}
	if next != me {
		s.cur = next
		wakeup(s.th[next].wake)
		if meLive {
			park(s.th[me].wake)
		}
	}
}

// Steps returns a logical clock (number of scheduling steps so far); drivers use it
// to timestamp call/return events for real-time-order oracles.
//
//go:norace
func Steps() int { return s.steps }

// Self returns the id of the running thread.
//
//go:norace
func Self() int {
	if !active {
		return -1
	}
	return s.cur
}

// Yield is an explicit scheduling point for driver code inside user callbacks.
func Yield() {
	if !On() {
		return
	}
	point(KYield, nil, nil)
}

// Atomic is the scheduling point taken before every atomic operation.
func Atomic() {
	if !On() {
		return
	}
	point(KAtomic, nil, nil)
}

//go:norace
func point(k Kind, mu *MutexState, rw *RWState) {
	me := s.cur
	if me < 0 || s.ended {
		return
	}
	t := &s.th[me]
	t.kind, t.mu, t.rw = k, mu, rw
	schedule()
}

// ---------------------------------------------------------------- mutex model

//go:norace
func (m *MutexState) fresh() {
	if m.exec != s.exec {
		*m = MutexState{exec: s.exec, ord: s.ord}
		s.ord++
	}
}

//go:norace
func (rw *RWState) fresh() {
	if rw.exec != s.exec {
		*rw = RWState{exec: s.exec, ord: s.ord}
		s.ord++
	}
}

// MutexLock blocks (in the model) until the mutex is free and takes it.
//
//go:norace
func MutexLock(m *MutexState) {
	m.fresh()
	point(KMutexLock, m, nil)
	m.locked = true
}

//go:norace
func MutexTryLock(m *MutexState) bool {
	m.fresh()
	point(KAtomic, nil, nil)
	if m.locked {
		return false
	}
	m.locked = true
	return true
}

//go:norace
func MutexUnlock(m *MutexState) {
	m.fresh()
	if s.releasePt {
		point(KRelease, nil, nil)
	}
	m.locked = false
}

//go:norace
func RWLock(rw *RWState) {
	rw.fresh()
	point(KRWLock, nil, rw)
	rw.wHeld = true
	rw.announced = true
	rw.wait = rw.active
	if rw.wait > 0 {
		point(KRWLockWait, nil, rw)
	}
}

//go:norace
func RWTryLock(rw *RWState) bool {
	rw.fresh()
	point(KAtomic, nil, nil)
	if rw.wHeld || rw.active > 0 {
		return false
	}
	rw.wHeld = true
	rw.announced = true
	rw.wait = 0
	return true
}

//go:norace
func RWUnlock(rw *RWState) {
	rw.fresh()
	if s.releasePt {
		point(KRelease, nil, nil)
	}
	rw.announced = false
	for i := 0; i < MaxThreads; i++ {
		if rw.blocked[i] {
			rw.blocked[i] = false
			rw.granted[i] = true
			rw.active++
		}
	}
	rw.wHeld = false
}

//go:norace
func RWRLock(rw *RWState) {
	rw.fresh()
	point(KRLock, nil, rw)
	if !rw.announced {
		rw.active++
		return
	}
	me := s.cur
	if me < 0 {
		return
	}
	rw.blocked[me] = true
	point(KRLockWait, nil, rw)
	rw.granted[me] = false
}

//go:norace
func RWTryRLock(rw *RWState) bool {
	rw.fresh()
	point(KAtomic, nil, nil)
	if rw.announced {
		return false
	}
	rw.active++
	return true
}

//go:norace
func RWRUnlock(rw *RWState) {
	rw.fresh()
	if s.releasePt {
		point(KRelease, nil, nil)
	}
	rw.active--
	if rw.announced {
		rw.wait--
	}
}

// ---------------------------------------------------------------- daemon

// Daemon is a goroutine created by the code under test (the vacuum loop) that the
// harness owns through the context shim: the goroutine calls Park at its idle point
// (the evaluation of ctx.Done() on entry to its select).
type Daemon struct {
	wake      chan struct{}
	parked    chan struct{}
	id        int
	adopted   uint32
	cancelled bool
	started   bool // the goroutine has reached its idle point at least once
}

// NewDaemon creates the control block for a daemon goroutine.
func NewDaemon() *Daemon {
	return &Daemon{wake: make(chan struct{}, 1), parked: make(chan struct{}, 1)}
}

// Park is called by the daemon goroutine when it goes idle. It returns true when
// the daemon was given a tick and false when it was cancelled.
func (d *Daemon) Park() bool {
	d.setStarted()
	if d.isCancelled() {
		return false
	}
	if On() && d.isAdopted() {
		RaceReleaseMerge(unsafe.Pointer(&joinSync))
		daemonPoint()
		RaceAcquire(unsafe.Pointer(&startSync))
	} else {
		select {
		case d.parked <- struct{}{}:
		default:
		}
		park(d.wake)
		RaceAcquire(unsafe.Pointer(&startSync))
	}
	return !d.isCancelled()
}

//go:norace
func (d *Daemon) isCancelled() bool { return d.cancelled }

//go:norace
func (d *Daemon) setStarted() { d.started = true }

// Started reports whether the daemon goroutine exists and has reached its idle point
// (a library that starts its background goroutine lazily has none until then). A
// goroutine that was just spawned is given the processor first.
//
//go:norace
func (d *Daemon) Started() bool {
	for i := 0; i < 64 && !d.started; i++ {
		runtime.Gosched()
	}
	// (a loaded machine may need real time to schedule a fresh goroutine; the wait is
	// only ever spent when there is none)
	for i := 0; i < 40 && !d.started; i++ {
		time.Sleep(5 * time.Millisecond)
	}
	return d.started
}

//go:norace
func (d *Daemon) isAdopted() bool { return d.adopted == s.exec && s.cur == d.id }

//go:norace
func daemonPoint() {
	point(KTick, nil, nil)
}

// Tick (sequential mode only) lets the daemon perform exactly one pass and returns
// when it is idle again.
func (d *Daemon) Tick() {
	if !d.Started() {
		return // no background goroutine: nothing performs a pass
	}
	select {
	case <-d.parked:
	default:
	}
	wakeup(d.wake)
	select {
	case <-d.parked:
	case <-time.After(60 * time.Second):
		panic(fmt.Sprintf("vsched: daemon did not return to its idle point within 60s (started=%v cancelled=%v)", d.started, d.cancelled))
	}
}

// WaitParked blocks until the daemon goroutine has reached its idle point once; it
// reports false when no such goroutine shows up (it may be started later).
func (d *Daemon) WaitParked() bool {
	if !d.Started() {
		return false
	}
	<-d.parked
	d.parked <- struct{}{}
	return true
}

// Cancel makes the daemon leave its loop.
func (d *Daemon) Cancel() {
	d.setCancelled()
	select {
	case d.wake <- struct{}{}:
	default:
	}
}

//go:norace
func (d *Daemon) setCancelled() { d.cancelled = true }
