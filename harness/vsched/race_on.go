//go:build race

package vsched

import (
	"runtime"
	"unsafe"
)

// RaceBuild reports whether the binary was built with -race.
const RaceBuild = true

func raceDisable() { runtime.RaceDisable() }
func raceEnable()  { runtime.RaceEnable() }

// RaceAcquire / RaceRelease expose the race annotations so that shims can model
// the exact happens-before edges of the primitives they replace.
func RaceAcquire(p unsafe.Pointer)      { runtime.RaceAcquire(p) }
func RaceRelease(p unsafe.Pointer)      { runtime.RaceRelease(p) }
func RaceReleaseMerge(p unsafe.Pointer) { runtime.RaceReleaseMerge(p) }
func RaceDisable()                      { runtime.RaceDisable() }
func RaceEnable()                       { runtime.RaceEnable() }
