#!/bin/bash
# seedregress.sh [pattern]: regression over the seeded changes kept under seeded/: applies each
# patch to a scratch worktree of /repo (never to /repo itself) and runs the FIRST check named in
# its meta.json (quick tier) against it; expects exit 1 + VIOLATION. One line per change.
# Development aid; evidence of these runs goes to a scratch directory.
set -u
export GOFLAGS=-mod=mod GOPROXY=off GOSUMDB=off GOTOOLCHAIN=local
V="$(cd "$(dirname "$0")" && pwd)"
cd "$V"
miss=0; n=0
for d in seeded/${1:-}*/; do
  name=$(basename "$d")
  id=$(python3 -c "import json;print(json.load(open('$d/meta.json'))['caught_by_checks'][0])")
  since=$(python3 -c "import json;print(json.load(open('$d/meta.json')).get('no_longer_a_defect_since',''))")
  if [ -n "$since" ]; then echo "$name $id SKIPPED (no longer a defect since fix $since, see its meta.json)"; continue; fi
  WT=/tmp/seedreg-$$; OUT=/tmp/seedreg-out-$$; mkdir -p "$OUT"
  git -C /repo worktree add -q --detach "$WT" HEAD || exit 2
  if ! git -C "$WT" apply "$V/$d/patch.diff" 2>/dev/null; then
    echo "$name $id PATCH-DOES-NOT-APPLY (the tree moved on: a later fix touches the same lines)"
    git -C /repo worktree remove --force "$WT"; rm -rf "$OUT"; continue
  fi
  out=$(VERIF_REPO="$WT" VERIF_OUT="$OUT" ./run.sh "$id" quick 2>&1); rc=$?
  nv=$(echo "$out" | grep -c '^VIOLATION')
  n=$((n+1))
  verdict=caught; if [ "$rc" != 1 ] || [ "$nv" = 0 ]; then verdict=MISSED; miss=$((miss+1)); fi
  echo "$name $id $verdict rc=$rc violations=$nv | $(echo "$out" | grep -A1 '^VIOLATION' | grep 'assert=' | head -1 | cut -c1-160)"
  git -C /repo worktree remove --force "$WT"; rm -rf "$OUT"
done
(cd "$V" && ./run.sh build >/dev/null 2>&1)
echo "seedregress: $n changes run, $miss missed"
