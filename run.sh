#!/bin/bash
# run.sh <property> <quick|thorough>   |   run.sh replay <file>   |   run.sh build
# Rebuilds the harness against the CURRENT working tree of $VERIF_REPO (default /repo)
# through a build overlay (imports of sync, sync/atomic, time, context rewritten to the
# harness shims) and runs the check. Exit 0 = held, 1 = VIOLATION, 2 = harness error.
set -u
export GOFLAGS=-mod=mod GOPROXY=off GOSUMDB=off GOTOOLCHAIN=local
VERIF_DIR="$(cd "$(dirname "$0")" && pwd)"
export VERIF_DIR
REPO="${VERIF_REPO:-/repo}"
B="$VERIF_DIR/.build"
H="$VERIF_DIR/harness"
mkdir -p "$B" "$VERIF_DIR/evidence" "$VERIF_DIR/replays"

build() { # $1 = output name, rest = extra go build flags
  local out="$1"; shift
  (
    flock 9
    cd "$H" || exit 2
    sed "s#=> /repo\$#=> $REPO#" go.mod > "$B/go.mod" || exit 2
    cp "$REPO/go.sum" "$B/go.sum" 2>/dev/null || cp "$H/go.sum" "$B/go.sum"
    # modfile lives in .build, so relative replaces must be absolute
    sed -i "s#=> \./third/#=> $H/third/#" "$B/go.mod"
    if [ ! -x "$B/mkoverlay" ] || [ "$H/tools/mkoverlay/main.go" -nt "$B/mkoverlay" ]; then
      go build -modfile "$B/go.mod" -o "$B/mkoverlay" ./tools/mkoverlay || exit 2
    fi
    "$B/mkoverlay" -repo "$REPO" -out "$B/ov" -json "$B/overlay.json" 2>/dev/null || exit 2
    go build -modfile "$B/go.mod" -overlay "$B/overlay.json" "$@" -o "$B/$out" ./cmd/colverif || exit 2
  ) 9>"$B/.lock"
}

case "${1:-}" in
  build)
    build colverif && build colverif-race -race
    exit $? ;;
  replay)
    build colverif || { echo "HARNESS-ERROR: build failed" >&2; exit 2; }
    if grep -q '"property": "C18"' "$2" && grep -q '"unit": "race/' "$2"; then
      build colverif-race -race || { echo "HARNESS-ERROR: race build failed" >&2; exit 2; }
      mkdir -p "$B/tmp"
      export GORACE="halt_on_error=0 history_size=3 log_path=$B/tmp/race-replay" VERIF_RACE_LOG="$B/tmp/race-replay"
      exec "$B/colverif-race" replay "$2"
    fi
    exec "$B/colverif" replay "$2" ;;
  *)
    id="$1"; tier="${2:-quick}"
    build colverif || { echo "HARNESS-ERROR: build of harness against $REPO failed" >&2; exit 2; }
    if [ "$id" = "C18" ]; then
      build colverif-race -race || { echo "HARNESS-ERROR: race build of harness against $REPO failed" >&2; exit 2; }
    fi
    exec "$B/colverif" check "$id" "$tier" ;;
esac
