#!/usr/bin/env python3
"""Regenerates MANIFEST.json from the table below (kept in one place so that the
manifest stays consistent with what is actually built)."""
import json, sys

CLAIMED = {
 # id: (category, technique, text, note, design_ref)
 "C01": ("model_checking",
         "bounded-exhaustive operation-sequence exploration of the real collection against a map-based reference model (explicit-state search, depth-bounded)",
         "For each of the 16 column kinds, every history up to depth d over insert/overwrite/merge/delete+reuse/multi-write/cross-block/late-column letters is run on the real code on every preset and capacity; after every step every live row is read through three reader paths and compared bit-for-bit with the model. Exhaustive within alphabet and depth, so a wrong width, missing presence bit, growth gap or interning mix-up reachable in d steps is found.",
         "Trusted: Go toolchain, reference model (plain maps, harness/model). Values from per-kind extreme alphabets; depth-bounded; bulk filler rows value-checked on a sample of offsets.",
         "DESIGN.md §8 C01"),
 "C02": ("model_checking",
         "bounded-exhaustive differential exploration of transaction histories (collection vs. reference model vs. a shadow collection that never runs the failing transactions); SCHED part: preemption-bounded exhaustive interleavings of a writer and an observer",
         "Every history up to depth d of committing and rolling-back transactions (successful and failing inserts, updates, merges, deletes, key operations, multi-block) is run on the real code; at every node the collection and a shadow that skipped every failing transaction must both equal the model, later inserts must return the same offsets on both, a rollback must emit nothing and reads inside a body must return committed values.",
         "Trusted: Go toolchain, reference model, scheduler lock models. Not judged: swallowing a failing insert's error and committing; observations overlapping a multi-block commit loop.",
         "DESIGN.md §8 C02"),
 "C06": ("model_checking",
         "bounded-exhaustive history exploration with a stream replica rebuilt and compared at every explored state (SEQ) and preemption-bounded exhaustive interleavings of concurrent writers (SCHED)",
         "At every node of every history up to depth d all emitted commits (through commit.Channel clones, the Commit codec and a commit.Log over s2) are replayed in emission order into a fresh collection that must equal the model in rows, values, index contents, key lookups and Count.",
         "Trusted: Go toolchain, reference model, scheduler lock models. The recording logger deep-copies inside Append.",
         "DESIGN.md §8 C06"),
 "C07": ("model_checking",
         "bounded-exhaustive differential exploration: histories that switch to a restored snapshot mid-way and continue there, compared with a reference model at every state",
         "Histories up to depth d over all column kinds with letters that snapshot, restore into a fresh collection of each capacity option and continue on the restored copy; every state (incl. second/third generation restores) must equal the model; later inserts must never return a live offset.",
         "Trusted: Go toolchain, reference model, klauspost/s2. Same schema and index definitions on the target, created before Restore.",
         "DESIGN.md §8 C07"),
 "C12": ("model_checking",
         "bounded-exhaustive key-operation histories against a map model (SEQ) and preemption-bounded exhaustive interleavings of concurrent key operations checked for linearizability by brute force (SCHED)",
         "Every history up to depth d over single key operations, every ordered pair of them inside one transaction, and error-ending variants on keys {a,b,c}; return values, Row.Key, uniqueness of live rows per key and lookups are compared with a map.",
         "Trusted: Go toolchain, reference model, scheduler lock models. Within one transaction only the first operation on a key has its return value judged.",
         "DESIGN.md §8 C12"),
 "C15": ("model_checking",
         "bounded-exhaustive history exploration with a recording logger (SEQ) and preemption-bounded exhaustive interleavings of concurrent writers with an apply-order witness (SCHED)",
         "After every transaction of every history up to depth d: exactly one commit per block in which it buffered an operation and none after rollback / no change; over the whole stream IDs are non-zero, distinct and increasing per block in emission order.",
         "Trusted: Go toolchain, reference model, scheduler lock models. 'Changed' = buffered an operation for an existing column or a row marker in that block.",
         "DESIGN.md §8 C15"),
 "C16": ("model_checking",
         "bounded-exhaustive history exploration over a two-letter string alphabet with Ascend compared against the model after every filter chain at every state",
         "Every history up to depth d of inserts, overwrites, concatenating merges, deletes (offset reuse) and late index creation in one and several blocks; Ascend after each of 5 filter chains must visit exactly the selected rows holding a value, once each, in non-decreasing order with readers positioned.",
         "Trusted: Go toolchain, reference model, tidwall/btree. Depth-bounded.",
         "DESIGN.md §8 C16"),
 "C19": ("model_checking",
         "bounded-exhaustive history exploration with a recording trigger compared against the model's list of committed stores and deletions after every transaction",
         "Every history up to depth d over stores, merges, put+merge / merge+put, multi-row and multi-block writes, deletes, error-ending transactions and createTrigger/dropTrigger letters for int, string and bool columns; the trigger log must equal the committed stores (final values) and row deletions as a multiset, in issue order per row, and be empty for rollbacks.",
         "Trusted: Go toolchain, reference model. For bool columns a false store and a row deletion are the same event.",
         "DESIGN.md §8 C19"),
 "C03": ("model_checking",
         "bounded-exhaustive operation-sequence exploration against a reference model, with replica and snapshot-restore twins compared at every explored state",
         "Every history up to depth d over value writes on both sides of each predicate, merges, put+merge / merge+put in one transaction, deletes with offset reuse and createIndex/dropIndex letters; at every node With(index) and Row.Bool(index) are compared with the predicate over the model on the primary, on a replica built from the emitted stream and on a restored snapshot, each with indexes created before and after the data.",
         "Trusted: Go toolchain, reference model. Depth-bounded; one index family per unit (numeric thresholds incl. two indexes with one predicate, string equality, bool, enum equality).",
         "DESIGN.md §8 C03"),
 "C04": ("model_checking",
         "bounded-exhaustive enumeration of data layouts x all filter chains up to length L on the real transaction API, compared with set algebra on a reference model",
         "At every layout reachable within d1 operations on each preset, every chain of up to L filter steps (34 steps incl. missing and wrong-type columns) is run and its selection, Count, Range order/cursor/readers and Sum/Avg/Min/Max are compared with set algebra over the model, for each of the 10 numeric kinds.",
         "Trusted: Go toolchain, reference model. Not judged: a first Union/WithUnion naming only missing columns; Min/Max with NaN values. Bounded by d1 and L.",
         "DESIGN.md §8 C04"),
 "C11": ("model_checking",
         "bounded-exhaustive insert/delete histories against a reference model (SEQ) and preemption-bounded exhaustive interleavings of concurrent inserters/deleters under a controlled scheduler (SCHED)",
         "SEQ: every history up to depth d of inserts (with values, empty, merge-on-insert, several per transaction), deletes and bulk fills across word and block edges on every capacity; each returned offset must be free, Count must equal the live rows, and a fresh row must expose only what its insert stored through readers, Sum and value filters. SCHED: all interleavings up to the preemption bound of concurrent inserting and deleting transactions.",
         "Trusted: Go toolchain, reference model, the cooperative scheduler and its lock models (harness/vsched). Placement policy is not judged.",
         "DESIGN.md §8 C11"),
 "C05": ("model_checking",
         "bounded-exhaustive enumeration of operation sequences over the real commit codec, compared with the literal list written",
         "Every sequence up to length L over (operation kind x value width/length x offset move) is written to a real commit.Buffer and read back through every path (Seek/Next, per-block Range, Clone, Buffer/Commit codecs, Log) and after a merge-swap pass; exhaustive for the stated alphabet and bound, so any encode/decode asymmetry in the 1..5-byte delta, block header, isNext or swap logic that shows within L operations is found.",
         "Trusted: the Go compiler/runtime, klauspost/s2, kelindar/iostream. Values are fixed patterns per width; offsets below 6 blocks; sequence length bounded by L.",
         "DESIGN.md §8 C05"),
}

ALL = ["C%02d" % i for i in range(1, 20)]
checks = []
for pid, (cat, tech, text, note, ref) in sorted(CLAIMED.items()):
    checks.append({
        "property_id": pid,
        "quick_cmd": "./run.sh %s quick" % pid,
        "thorough_cmd": "./run.sh %s thorough" % pid,
        "evidence_file": "/verif/evidence/%s.json" % pid,
        "replay_cmd_template": "./run.sh replay {path}",
        "engine": "colverif",
        "level_claimed": {"category": cat, "text": text, "design_ref": ref},
        "level_note": note,
        "technique": tech,
    })
na = [{"property_id": p, "reason": "check not built yet (work in progress; see DESIGN.md §8 for the plan)"} for p in ALL if p not in CLAIMED]
m = {
 "version": 1,
 "setup_cmd": "./run.sh build",
 "hooks": {
  "guard": "none: no source hooks. Instrumentation is a build overlay generated at check time (imports of sync, sync/atomic, time, context are rewritten to /verif/harness/shim/*); /repo carries no verification code",
  "enable": "./run.sh regenerates .build/overlay.json from the current /repo tree and builds the harness with `go build -overlay`; nothing to enable in /repo",
  "baseline_off_cmd": "cd /repo && GOFLAGS=-mod=mod GOPROXY=off GOSUMDB=off go test -vet=off -count=1 -timeout 25m ./...",
  "source_commits": [],
  "add_only": True,
 },
 "engines": [
  {"name": "colverif", "path": "/verif/harness", "serves_properties": sorted(CLAIMED),
   "kind_free_text": "hand-written explorer over the real compiled code: SEQ (bounded-exhaustive operation sequences vs a reference model), SCHED (cooperative scheduler, preemption-bounded exhaustive interleavings at every sync/atomic operation), FAULT (every truncation offset / failing write index)"},
 ],
 "checks": checks,
 "not_applicable": na,
 "notes": "Fixes to kelindar/column are separate unguarded 'fix:' commits in /repo; genuine defects that are not repaired are listed in /verif/known-findings.json.",
}
json.dump(m, open("/verif/MANIFEST.json", "w"), indent=1)
print("claimed:", sorted(CLAIMED))
