#!/bin/bash
# runall.sh [tier]: every check once, summary line per property (development aid)
tier="${1:-quick}"
cd "$(dirname "$0")"
for i in $(seq -w 1 19); do
  id="C$i"
  out=$(./run.sh "$id" "$tier" 2>&1); rc=$?
  echo "$id rc=$rc $(echo "$out" | grep -c '^VIOLATION') violations, $(echo "$out" | grep -c '^KNOWN-FINDING') known, $(echo "$out" | grep -c 'HARNESS-ERROR') errors | $(echo "$out" | tail -1 | cut -c1-200)"
done
