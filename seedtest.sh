#!/bin/bash
# seedtest.sh <dir-with-patch.diff-and-demo> <check-id>...   (development / self-test aid)
# Applies a seeded change to a scratch worktree of /repo (never to /repo itself), confirms
# that the repository's own suite still passes and that the demonstration fails with the
# change and passes without it, then runs the named checks against the changed tree.
# Evidence and replays of these runs go to a scratch directory, not to /verif/evidence.
set -u
export GOFLAGS=-mod=mod GOPROXY=off GOSUMDB=off GOTOOLCHAIN=local
D="$(cd "$1" && pwd)"; shift
V="$(cd "$(dirname "$0")" && pwd)"
WT=/tmp/seedtest-$$
OUT=/tmp/seedtest-out-$$
mkdir -p "$OUT"
git -C /repo worktree add -q --detach "$WT" HEAD || exit 2
trap 'git -C /repo worktree remove --force "$WT" 2>/dev/null; rm -rf "$OUT"' EXIT
demos=$(ls "$D"/*_test.go 2>/dev/null)
pkgdir() { if grep -q '^package commit' "$1"; then echo "$WT/commit"; else echo "$WT"; fi; }
tests() { grep -ho '^func Test[A-Za-z0-9_]*' $demos | sed 's/func //' | paste -sd'|'; }
echo "== demo on the unchanged tree (must pass)"
for f in $demos; do cp "$f" "$(pkgdir "$f")/"; done
(cd "$WT" && go test -vet=off -count=1 -run "^($(tests))\$" ./... 2>&1 | grep -v 'no test files' | tail -3)
for f in $demos; do rm -f "$(pkgdir "$f")/$(basename "$f")"; done
echo "== apply patch"
git -C "$WT" apply "$D/patch.diff" || { echo "PATCH DOES NOT APPLY"; exit 2; }
git -C "$WT" diff --stat | tail -3
echo "== repository suite with the change (must pass)"
(cd "$WT" && go build ./... && go test -vet=off -count=1 ./... 2>&1 | grep -v 'no test files' | tail -3)
echo "== demo with the change (must fail)"
for f in $demos; do cp "$f" "$(pkgdir "$f")/"; done
(cd "$WT" && go test -vet=off -count=1 -run "^($(tests))\$" ./... 2>&1 | grep -v 'no test files' | tail -4)
for f in $demos; do rm -f "$(pkgdir "$f")/$(basename "$f")"; done
for id in "$@"; do
  echo "== check $id against the changed tree (expect exit 1 + VIOLATION)"
  out=$(cd "$V" && VERIF_REPO="$WT" VERIF_OUT="$OUT" ./run.sh "$id" quick 2>&1); rc=$?
  echo "$out" | grep -A2 '^VIOLATION' | head -9 | cut -c1-400
  echo "$out" | grep 'HARNESS-ERROR' | head -3 | cut -c1-300
  echo "RESULT $id rc=$rc violations=$(echo "$out" | grep -c '^VIOLATION') | $(echo "$out" | tail -1 | cut -c1-160)"
done
# leave the harness built against /repo again
(cd "$V" && ./run.sh build >/dev/null 2>&1)
